//! C08 engine: set algebra against the mathematical result, on lists (so repeats are visible),
//! at every consumption prefix.  Also tags C19 (Debug of the lazy iterators lists exactly the
//! not-yet-yielded items) and C06 (references point into the operands).
//!
//! Exhaustive sub-space: all ordered arrangements of all subsets of a u-class universe for the
//! left and the right operand (u = 4: 65 x 65 pairs, u = 5: 326 x 326), for several capacity
//! pairs (N, M); random pairs on top.

use crate::common::Ctx;
use crate::maphist::parse_listing;
use crate::panicsafe::layouts;
use micromap::Set;
use support::elems::{z_set_eq, TK, Z};
use support::frame::{addr_of, Frame};
use support::ledger;
use support::rng::{Fp, Rng};

pub struct Alg<'a> {
    pub cx: &'a mut Ctx,
    pub pair_no: u64,
    pub descr: String,
    pub ops: u64,
}

fn v(prop: &str, what: &str, msg: String) {
    let (_, _, op) = ledger::ctx();
    ledger::violation(prop, format!("{}@{}", what, op), msg);
}

fn build<const N: usize>(l: &[u32], tag0: u32) -> Box<Frame<Set<TK, N>>> {
    let mut s: Set<TK, N> = Set::new();
    for (i, c) in l.iter().enumerate() {
        s.insert(TK::new(*c, tag0 + i as u32));
    }
    Frame::boxed(s)
}

fn snapshot<const N: usize>(s: &Set<TK, N>) -> Vec<(u32, u32, u64, usize)> {
    s.iter().map(|k| (k.class, k.tag, k.id, addr_of(k))).collect()
}

/// Which operand must an item come from.
#[derive(Clone, Copy, PartialEq)]
enum From {
    Left,
    Either,
}

/// Set algebra on elements WITHOUT drop glue whose `==` is not bit equality (one-byte `Tiny`, four-byte
/// `Word`, thin references `&u32` compared through the pointee): the two operands hold equal elements that
/// differ in their bits (another tag / another address).  Lists, not sets, are compared; `next()` and `fold`
/// both; the predicates and `-` as well.
fn plain_pair<T: Clone + PartialEq + 'static, const N: usize, const M: usize>(descr: &str, tname: &str, la: &[u32], lb: &[u32], mk: &dyn Fn(u32, u32) -> T, class_of: &dyn Fn(&T) -> u32) {
    let mut a: Set<T, N> = Set::new();
    let mut b: Set<T, M> = Set::new();
    for c in la {
        a.insert(mk(*c, 1));
    }
    for c in lb {
        b.insert(mk(*c, 2));
    }
    let inb = |c: &u32| lb.contains(c);
    let ina = |c: &u32| la.contains(c);
    let sorted = |mut x: Vec<u32>| {
        x.sort_unstable();
        x
    };
    let diff: Vec<u32> = la.iter().copied().filter(|c| !inb(c)).collect();
    let rdiff: Vec<u32> = lb.iter().copied().filter(|c| !ina(c)).collect();
    let inter: Vec<u32> = la.iter().copied().filter(inb).collect();
    let uni: Vec<u32> = lb.iter().copied().chain(diff.iter().copied()).collect();
    let sym: Vec<u32> = diff.iter().copied().chain(rdiff.iter().copied()).collect();
    macro_rules! both {
        ($name:expr, $it:expr, $want:expr) => {{
            let by_next: Vec<u32> = $it.map(|x| class_of(x)).collect();
            let by_fold: Vec<u32> = $it.fold(Vec::new(), |mut acc, x| {
                acc.push(class_of(x));
                acc
            });
            let want = sorted($want.clone());
            if sorted(by_next.clone()) != want {
                v("C08", "result(plain elements)", format!("[{} as Set<{}>] {} yields classes {:?}; mathematically {:?}", descr, tname, $name, by_next, want));
            }
            if sorted(by_fold.clone()) != want {
                v("C08", "fold(plain elements)", format!("[{} as Set<{}>] {} folds over classes {:?}; mathematically {:?}", descr, tname, $name, by_fold, want));
            }
        }};
    }
    both!("union", a.union(&b), uni);
    both!("intersection", a.intersection(&b), inter);
    both!("difference", a.difference(&b), diff);
    both!("symmetric_difference", a.symmetric_difference(&b), sym);
    let d: Set<T, N> = &a - &b;
    if sorted(d.iter().map(|x| class_of(x)).collect()) != sorted(diff.clone()) {
        v("C08", "sub-result(plain elements)", format!("[{} as Set<{}>] `&a - &b` is not the mathematical difference {:?}", descr, tname, diff));
    }
    let (sub, sup, dis) = (la.iter().all(inb), lb.iter().all(ina), inter.is_empty());
    if a.is_subset(&b) != sub || a.is_superset(&b) != sup || a.is_disjoint(&b) != dis {
        v("C08", "predicates(plain elements)", format!("[{} as Set<{}>] is_subset/is_superset/is_disjoint = {}/{}/{}; mathematically {}/{}/{}", descr, tname, a.is_subset(&b), a.is_superset(&b), a.is_disjoint(&b), sub, sup, dis));
    }
}

impl<'a> Alg<'a> {
    /// Check one lazy iterator `it` (cloneable) against the expected class set.
    #[allow(clippy::too_many_arguments)]
    fn check_iter<'s, I>(&mut self, name: &'static str, it: I, expect: &[u32], from: From, a: &[(u32, u32, u64, usize)], b: &[(u32, u32, u64, usize)], ra: (usize, usize), rb: (usize, usize))
    where
        I: Iterator<Item = &'s TK> + Clone + std::fmt::Debug,
    {
        ledger::set_ctx(self.pair_no, 0, name);
        self.cx.rep.evaluations += 1;
        self.ops += 1;
        // full list by stepping, with per-prefix probes on clones
        let mut yielded: Vec<(u32, u32, u64, usize)> = Vec::new();
        let mut cur = it;
        let total_expected = expect.len();
        let mut step = 0usize;
        loop {
            // -- probes on the iterator as it stands after `step` items
            let remaining_by_count = cur.clone().count();
            let (lo, hi) = cur.size_hint();
            let rest_step: Vec<u64> = {
                let mut c = cur.clone();
                let mut o = Vec::new();
                while let Some(k) = c.next() {
                    o.push(k.id);
                    if o.len() > a.len() + b.len() + 2 {
                        break;
                    }
                }
                o
            };
            let rest_fold: Vec<u64> = cur.clone().fold(Vec::new(), |mut acc, k| {
                acc.push(k.id);
                acc
            });
            if rest_fold != rest_step {
                v("C08", "fold-vs-next", format!("{} [{}] after {} items: fold visits {:x?} but stepping yields {:x?}", name, self.descr, step, rest_fold, rest_step));
            }
            if remaining_by_count != rest_step.len() {
                v("C08", "count", format!("{} [{}] after {} items: count() = {} but {} items are still to come", name, self.descr, step, remaining_by_count, rest_step.len()));
            }
            if lo > rest_step.len() || hi.map_or(false, |h| h < rest_step.len()) {
                v("C08", "size_hint", format!("{} [{}] after {} items: size_hint = ({}, {:?}) does not bracket the {} items still to come", name, self.descr, step, lo, hi, rest_step.len()));
            }
            // Debug lists exactly the not-yet-yielded items (C19)
            if step == 0 || step == total_expected / 2 || step + 1 == total_expected {
                let dbg = format!("{:?}", cur);
                let mut want: Vec<String> = rest_step
                    .iter()
                    .map(|id| {
                        let e = a.iter().chain(b.iter()).find(|x| x.2 == *id);
                        e.map_or_else(|| "?".to_string(), |x| format!("K{}#{}", x.0, x.1))
                    })
                    .collect();
                want.sort();
                match parse_listing(&dbg) {
                    Some(g) if g == want => {}
                    _ => v("C19", "algebra-iterator-debug", format!("Debug of {} [{}] after {} items is `{}`; the not-yet-yielded items are {:?}", name, self.descr, step, dbg, want)),
                }
                self.cx.rep.num("iterator_debug_renderings", 1);
            }
            self.cx.rep.num("prefix_probes", 1);
            // -- one step
            match cur.next() {
                Some(k) => {
                    k.check("algebra item");
                    yielded.push((k.class, k.tag, k.id, addr_of(k)));
                    step += 1;
                    if step > a.len() + b.len() + 2 {
                        v("C08", "runaway", format!("{} [{}] yields more items than both operands hold", name, self.descr));
                        break;
                    }
                }
                None => {
                    for _ in 0..3 {
                        if cur.next().is_some() {
                            v("C08", "not-fused", format!("{} [{}] yields Some after None", name, self.descr));
                        }
                    }
                    break;
                }
            }
        }
        // the yielded LIST must be a permutation of the mathematical result
        let mut got: Vec<u32> = yielded.iter().map(|x| x.0).collect();
        got.sort_unstable();
        let mut want: Vec<u32> = expect.to_vec();
        want.sort_unstable();
        if got != want {
            let mut dedup = got.clone();
            dedup.dedup();
            let what = if dedup.len() != got.len() { "repeat" } else { "result" };
            v("C08", what, format!("{} [{}] yields classes {:?}; the mathematical result is {:?}", name, self.descr, yielded.iter().map(|x| x.0).collect::<Vec<_>>(), want));
        }
        // every item is an element of an operand, at its address; intersection/difference: the left one
        for y in &yielded {
            let in_a = a.iter().any(|x| x.2 == y.2 && x.3 == y.3);
            let in_b = b.iter().any(|x| x.2 == y.2 && x.3 == y.3);
            let ok = match from {
                From::Left => in_a,
                From::Either => in_a || in_b,
            };
            if !ok {
                v("C08", "foreign-reference", format!("{} [{}] yields object {:#x} at {:#x}, which is not {} element", name, self.descr, y.2, y.3, if from == From::Left { "the left operand's own" } else { "an operand's" }));
            }
            let inside = (y.3 >= ra.0 && y.3 < ra.1.max(ra.0 + 1)) || (from == From::Either && y.3 >= rb.0 && y.3 < rb.1.max(rb.0 + 1));
            if !inside {
                v("C06", "ref-outside", format!("{} [{}] yields a reference {:#x} outside the operand's bytes", name, self.descr, y.3));
            }
        }
    }

    pub fn pair<const N: usize, const M: usize>(&mut self, la: &[u32], lb: &[u32]) {
        ledger::reset();
        self.descr = format!("A<{}>={:?} B<{}>={:?}", N, la, M, lb);
        let fa = build::<N>(la, 10);
        let fb = build::<M>(lb, 50);
        let (a, b) = (fa.get(), fb.get());
        let sa = snapshot(a);
        let sb = snapshot(b);
        let (ra, rb) = (fa.range(), fb.range());
        let inb = |c: &u32| lb.contains(c);
        let ina = |c: &u32| la.contains(c);
        let mut fp = Fp::new(0xA16E + (N as u64) * 64 + M as u64);
        for c in la {
            fp.add(u64::from(*c));
        }
        fp.add(0xFFFF);
        for c in lb {
            fp.add(u64::from(*c));
        }
        if !(la.is_empty() && lb.is_empty()) {
            self.cx.rep.fps.add(fp.get());
        }
        let uni: Vec<u32> = lb.iter().copied().chain(la.iter().copied().filter(|c| !inb(c))).collect();
        let inter: Vec<u32> = la.iter().copied().filter(inb).collect();
        let diff: Vec<u32> = la.iter().copied().filter(|c| !inb(c)).collect();
        let rdiff: Vec<u32> = lb.iter().copied().filter(|c| !ina(c)).collect();
        let sym: Vec<u32> = diff.iter().copied().chain(rdiff.iter().copied()).collect();

        self.check_iter("union", a.union(b), &uni, From::Either, &sa, &sb, ra, rb);
        self.check_iter("intersection", a.intersection(b), &inter, From::Left, &sa, &sb, ra, rb);
        self.check_iter("difference", a.difference(b), &diff, From::Left, &sa, &sb, ra, rb);
        self.check_iter("symmetric_difference", a.symmetric_difference(b), &sym, From::Either, &sa, &sb, ra, rb);
        self.cx.rep.hit("union");
        self.cx.rep.hit("intersection");
        self.cx.rep.hit("difference");
        self.cx.rep.hit("symmetric_difference");

        // predicates
        ledger::set_ctx(self.pair_no, 0, "predicates");
        self.cx.rep.evaluations += 3;
        let sub = la.iter().all(inb);
        let sup = lb.iter().all(ina);
        let dis = inter.is_empty();
        if a.is_subset(b) != sub {
            v("C08", "is_subset", format!("[{}] is_subset = {} but mathematically {}", self.descr, !sub, sub));
        }
        if a.is_superset(b) != sup {
            v("C08", "is_superset", format!("[{}] is_superset = {} but mathematically {}", self.descr, !sup, sup));
        }
        if a.is_disjoint(b) != dis {
            v("C08", "is_disjoint", format!("[{}] is_disjoint = {} but mathematically {}", self.descr, !dis, dis));
        }
        self.cx.rep.hit(if sub { "is_subset:true" } else { "is_subset:false" });
        self.cx.rep.hit(if sup { "is_superset:true" } else { "is_superset:false" });
        self.cx.rep.hit(if dis { "is_disjoint:true" } else { "is_disjoint:false" });

        // the same operand pair with plain (drop-less, not bitwise-equal) element types
        if self.pair_no % 4 == 0 && la.iter().chain(lb.iter()).all(|c| *c < 32) {
            use support::elems::{Tiny, Word};
            ledger::set_ctx(self.pair_no, 0, "plain-elements");
            self.cx.rep.evaluations += 3;
            self.cx.rep.hit("plain-elements");
            plain_pair::<Tiny, N, M>(&self.descr, "Tiny(1 byte)", la, lb, &|c, t| Tiny::new(c, t), &|x| x.class());
            plain_pair::<Word, N, M>(&self.descr, "Word(4 bytes)", la, lb, &|c, t| Word::new(c, t), &|x| x.class());
            // thin references compared through the pointee: the two operands point at different cells
            static CELLS: [[u32; 32]; 2] = {
                let mut c = [[0u32; 32]; 2];
                let mut i = 0;
                while i < 32 {
                    c[0][i] = i as u32;
                    c[1][i] = i as u32;
                    i += 1;
                }
                c
            };
            plain_pair::<&'static u32, N, M>(&self.descr, "&u32", la, lb, &|c, t| &CELLS[(t as usize) % 2][c as usize], &|x| **x);
        }
        // `&a - &b`: a new set of clones of the left operand's elements
        ledger::set_ctx(self.pair_no, 0, "sub");
        self.cx.rep.evaluations += 1;
        self.cx.rep.hit("sub");
        {
            let d: Set<TK, N> = a - b;
            let mut got: Vec<u32> = d.iter().map(|k| k.class).collect();
            got.sort_unstable();
            let mut want = diff.clone();
            want.sort_unstable();
            if got != want || d.len() != want.len() {
                v("C08", "sub-result", format!("[{}] `&a - &b` holds classes {:?}; the mathematical difference is {:?}", self.descr, got, want));
            }
            for k in d.iter() {
                k.check("sub element");
                let parent = ledger::info(k.id).map_or(0, |o| o.parent);
                if !sa.iter().any(|x| x.2 == parent) {
                    v("C08", "sub-origin", format!("[{}] `&a - &b` holds an element that is not a clone of a left-operand element", self.descr));
                }
            }
        }

        // difference_ref on sets of references
        ledger::set_ctx(self.pair_no, 0, "difference_ref");
        self.cx.rep.evaluations += 1;
        self.cx.rep.hit("difference_ref");
        {
            let ka: Vec<TK> = la.iter().map(|c| TK::new(*c, 70)).collect();
            let kb: Vec<TK> = lb.iter().map(|c| TK::new(*c, 80)).collect();
            let mut ar: Set<&TK, N> = Set::new();
            for k in &ka {
                ar.insert(k);
            }
            let mut br: Set<&TK, M> = Set::new();
            for k in &kb {
                br.insert(k);
            }
            let it = ar.difference_ref(&br);
            let (lo, hi) = it.size_hint();
            let got: Vec<&TK> = it.clone().collect();
            let folded: Vec<u64> = it.clone().fold(Vec::new(), |mut acc, k| {
                acc.push(k.id);
                acc
            });
            let dbg = format!("{:?}", it);
            let mut gc: Vec<u32> = got.iter().map(|k| k.class).collect();
            if folded != got.iter().map(|k| k.id).collect::<Vec<_>>() {
                v("C08", "fold-vs-next", format!("difference_ref [{}]: fold and next disagree", self.descr));
            }
            if lo > got.len() || hi.map_or(false, |h| h < got.len()) {
                v("C08", "size_hint", format!("difference_ref [{}]: size_hint ({}, {:?}) does not bracket {}", self.descr, lo, hi, got.len()));
            }
            let mut wl: Vec<String> = got.iter().map(|k| format!("K{}#{}", k.class, k.tag)).collect();
            wl.sort();
            if parse_listing(&dbg) != Some(wl.clone()) {
                v("C19", "algebra-iterator-debug", format!("Debug of difference_ref [{}] is `{}`, expected the items {:?}", self.descr, dbg, wl));
            }
            for k in &got {
                if !ka.iter().any(|x| std::ptr::eq(x, *k)) {
                    v("C08", "foreign-reference", format!("difference_ref [{}] yields a reference that is not one of the left operand's", self.descr));
                }
            }
            gc.sort_unstable();
            let mut want = diff.clone();
            want.sort_unstable();
            if gc != want {
                v("C08", "result", format!("difference_ref [{}] yields classes {:?}; the mathematical difference is {:?}", self.descr, gc, want));
            }
        }

        // operands unchanged
        ledger::set_ctx(self.pair_no, 0, "operands-after");
        if snapshot(a) != sa || snapshot(b) != sb || a.len() != la.len() || b.len() != lb.len() {
            v("C08", "operand-changed", format!("[{}] an operand was changed by a set-algebra operation", self.descr));
        }
        if !fa.canaries_ok() || !fb.canaries_ok() {
            v("C08", "canary", format!("[{}] memory around an operand was overwritten", self.descr));
        }
        drop(fa);
        drop(fb);
        if ledger::alive_count() != 0 {
            v("C02", "leak", format!("[{}] {} objects alive after both operands and all results were dropped", self.descr, ledger::alive_count()));
        }
        if ledger::viol_total() > 0 {
            let d = self.descr.clone();
            self.cx.rep.absorb_violations("C08", &|| vec![d.clone()]);
        }
    }

    /// zero-sized elements: all equal (a set holds at most one) or all different (nothing is shared)
    pub fn zst<const N: usize, const M: usize>(&mut self) {
        ledger::set_ctx(self.pair_no, 0, "algebra(zero-sized)");
        for all_equal in [true, false] {
            z_set_eq(all_equal);
            for la in 0..=N {
                for lb in 0..=M {
                    if all_equal && (la > 1 || lb > 1) {
                        continue;
                    }
                    self.cx.rep.evaluations += 1;
                    let mut a: Set<Z, N> = Set::new();
                    let mut b: Set<Z, M> = Set::new();
                    for _ in 0..la {
                        a.insert(Z::new());
                    }
                    for _ in 0..lb {
                        b.insert(Z::new());
                    }
                    let shared = if all_equal { la.min(lb) } else { 0 };
                    let want = [la + lb - shared, shared, la - shared, la + lb - 2 * shared];
                    let got = [a.union(&b).count(), a.intersection(&b).count(), a.difference(&b).count(), a.symmetric_difference(&b).count()];
                    let stepped = [
                        a.union(&b).fold(0usize, |n, _| n + 1),
                        a.intersection(&b).fold(0usize, |n, _| n + 1),
                        { let mut it = a.difference(&b); let mut n = 0; while it.next().is_some() { n += 1; } n },
                        { let mut it = a.symmetric_difference(&b); let mut n = 0; while it.next().is_some() { n += 1; } n },
                    ];
                    let d: Set<Z, N> = &a - &b;
                    let preds = [a.is_subset(&b), a.is_superset(&b), a.is_disjoint(&b)];
                    let wantp = [la == shared, lb == shared, shared == 0];
                    if got != want || stepped != want || d.len() != la - shared || preds != wantp || a.len() != la || b.len() != lb {
                        v("C08", "zero-sized", format!("zero-sized elements (all equal = {}): |A<{}>| = {}, |B<{}>| = {}: [union, intersection, difference, symmetric_difference] count() = {:?}, stepped/folded = {:?}, expected {:?}; |A - B| = {} (expected {}); [subset, superset, disjoint] = {:?}, expected {:?}", all_equal, N, la, M, lb, got, stepped, want, d.len(), la - shared, preds, wantp));
                    }
                    self.cx.rep.hit("zst");
                }
            }
        }
        z_set_eq(true);
        if ledger::viol_total() > 0 {
            self.cx.rep.absorb_violations("C08", &|| vec![format!("zero-sized elements N={} M={}", N, M)]);
        }
    }

    /// exhaustive: every layout pair over a u-class universe
    pub fn space<const N: usize, const M: usize>(&mut self, u: u32) {
        let (si, sn) = self.cx.shard;
        let las = layouts(u, N);
        let lbs = layouts(u, M);
        for la in &las {
            for lb in &lbs {
                self.pair_no += 1;
                if let Some(h) = self.cx.only_hist {
                    if h != self.pair_no {
                        continue;
                    }
                } else if self.pair_no % sn != si {
                    continue;
                }
                if self.cx.rep.viol_total > 100 {
                    return;
                }
                self.pair::<N, M>(la, lb);
                if self.cx.rep.samples.len() < 4 && self.pair_no % 1013 == si {
                    let s = format!("pair {}: {}: union/intersection/difference/symmetric_difference at every prefix, sub, difference_ref, predicates", self.pair_no, self.descr);
                    self.cx.rep.sample(s);
                }
            }
        }
        self.cx.rep.hit(&format!("space:N={},M={},u={}", N, M, u));
    }

    pub fn random<const N: usize, const M: usize>(&mut self, pairs: u64, u: u32) {
        for i in 0..pairs {
            let mut rng: Rng = self.cx.hist_rng(7_000_000 + i * self.cx.shard.1 + self.cx.shard.0 + (N as u64) * 131 + M as u64);
            let mut cl: Vec<u32> = (1..=u).collect();
            rng.shuffle(&mut cl);
            let na = rng.usize_below(N.min(u as usize) + 1);
            let la: Vec<u32> = cl[..na].to_vec();
            rng.shuffle(&mut cl);
            let nb = rng.usize_below(M.min(u as usize) + 1);
            let lb: Vec<u32> = cl[..nb].to_vec();
            self.pair_no += 1;
            self.pair::<N, M>(&la, &lb);
            self.cx.rep.hit("random-pair");
        }
    }
}
