//! C08 engine binary: set algebra on exhaustive layout pairs + random pairs.
use engines::algebra::Alg;
use engines::common::Ctx;

fn main() {
    let mut cx = Ctx::from_args("eng_algebra");
    let u = cx.args.u64("universe", 4) as u32;
    let random = cx.args.u64("random", 0);
    let small = !cx.args.flag("no-small");
    let budget = cx.budget;
    let mut a = Alg { cx: &mut cx, pair_no: 0, descr: String::new(), ops: 0 };
    if budget > 0 {
        if a.cx.args.flag("tiny") {
            // Miri-sized sub-space: 3-class universe
            a.space::<3, 3>(3);
            a.space::<2, 4>(3);
            a.space::<0, 2>(2);
            a.space::<2, 0>(2);
        } else {
            if u <= 4 {
                a.space::<4, 4>(u);
                a.space::<4, 8>(u);
                a.space::<8, 4>(u);
            } else {
                a.space::<5, 5>(u);
                a.space::<5, 8>(u);
            }
            if small {
                a.space::<0, 0>(u);
                a.space::<0, 4>(u);
                a.space::<4, 0>(u);
                a.space::<1, 2>(u);
                a.space::<2, 1>(u);
                a.space::<2, 4>(u);
                a.space::<4, 2>(u);
                a.space::<3, 3>(u);
                a.space::<5, 4>(u);
            }
        }
        if a.cx.shard.0 == 0 && a.cx.only_hist.is_none() {
            a.zst::<2, 3>();
            a.zst::<1, 1>();
            a.zst::<3, 0>();
        }
        a.cx.rep.exhaustive = a.cx.only_hist.is_none();
        if random > 0 {
            a.random::<16, 32>(random / 3, 20);
            a.random::<32, 16>(random / 3, 20);
            a.random::<8, 8>(random / 3, 10);
            // capacities beyond the 32-, 64- and 256-slot marks
            a.random::<70, 40>(2, 80);
            a.random::<40, 300>(1, 320);
        }
    }
    let ops = a.ops;
    cx.rep.num("iterator_walks", ops);
    cx.finish();
}
