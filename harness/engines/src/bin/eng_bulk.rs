//! C16 engine binary: bulk construction vs one-by-one insertion.
use engines::bulk::Bulk;
use engines::common::Ctx;
use engines::fam::{Copyf, Large, OddF, TinyF, Track, WordF};

fn main() {
    let mut cx = Ctx::from_args("eng_bulk");
    let random = cx.args.u64("random", 0);
    let tiny = cx.args.flag("tiny");
    let maxlen = cx.args.usize("maxlen", 6);
    let budget = cx.budget;
    let mut b = Bulk { cx: &mut cx, case_no: 0 };
    if budget > 0 {
        if tiny {
            b.space::<Track, 0>(3, 2);
            b.space::<Track, 1>(3, 3);
            b.space::<Track, 2>(3, maxlen.min(4));
            b.space_by_ref::<2>(3, 3);
        } else {
            b.space::<Track, 0>(4, 3);
            b.space::<Track, 1>(4, maxlen.min(5));
            b.space::<Track, 2>(4, maxlen);
            b.space::<Track, 3>(4, maxlen);
            b.space::<Track, 4>(4, maxlen);
            b.space::<Copyf, 2>(4, maxlen.min(5));
            b.space::<Copyf, 3>(4, maxlen.min(5));
            b.space::<Large, 2>(3, 4);
            // drop-less keys whose == is not bit equality, odd sizes
            b.space::<TinyF, 2>(3, 4);
            b.space::<TinyF, 3>(4, maxlen.min(5));
            b.space::<WordF, 3>(3, 4);
            b.space::<OddF, 2>(3, 4);
            b.space_by_ref::<0>(4, 2);
            b.space_by_ref::<2>(4, maxlen.min(5));
            b.space_by_ref::<3>(4, maxlen.min(5));
        }
        if b.cx.shard.0 == 0 && b.cx.only_hist.is_none() {
            b.zst::<0>();
            b.zst::<1>();
            b.zst::<3>();
        }
        b.cx.rep.exhaustive = b.cx.only_hist.is_none();
        if random > 0 {
            b.random::<Track, 8>(random / 3);
            b.random::<Track, 16>(random / 3);
            b.random::<Copyf, 5>(random / 3);
            // capacities beyond the 32- and 64-slot marks
            b.random::<Copyf, 40>(random / 40 + 2);
            b.random::<Track, 70>(random / 80 + 2);
        }
    }
    cx.finish();
}
