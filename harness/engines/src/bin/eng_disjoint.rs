//! C13 engine binary (and C18's get_disjoint_unchecked_mut half, with --prop C18).
use engines::common::Ctx;
use engines::disjoint::{Dj, Mode};

fn main() {
    let mut cx = Ctx::from_args("eng_disjoint");
    let modes: Vec<Mode> = if cx.prop == "C18" { vec![Mode::Unchecked] } else { vec![Mode::SafeQ, Mode::SafeK] };
    let random = cx.args.u64("random", 0);
    let tiny = cx.args.flag("tiny");
    let maxj = cx.args.usize("maxj", 4);
    let budget = cx.budget;
    let mut d = Dj { cx: &mut cx, case_no: 0, seq: 0 };
    if budget > 0 {
        if tiny {
            // Miri-sized: 3-class universe, tuples up to length 3 (and 4 on the smallest map)
            d.space::<0>(2, 3, &modes);
            d.space::<2>(3, maxj.min(3), &modes);
            d.space::<3>(3, maxj.min(3), &modes);
        } else {
            d.space::<0>(4, maxj, &modes);
            d.space::<1>(4, maxj, &modes);
            d.space::<2>(4, maxj, &modes);
            d.space::<3>(4, maxj, &modes);
            d.space::<4>(4, maxj, &modes);
            d.space::<8>(4, maxj, &modes);
        }
        if d.cx.shard.0 == 0 && d.cx.only_hist.is_none() && d.cx.prop == "C13" {
            d.zst::<1>();
            d.zst::<2>();
            d.zst::<3>();
        }
        d.cx.rep.exhaustive = d.cx.only_hist.is_none();
        if random > 0 {
            d.random::<8>(random / 2, &modes);
            d.random::<16>(random / 2, &modes);
            d.big((random / 400).max(2), &modes);
        }
    }
    cx.finish();
}
