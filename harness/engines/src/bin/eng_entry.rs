//! C11 engine binary: entry API vs direct operations (twin technique).
use engines::common::Ctx;
use engines::entryeq::Ent;

fn main() {
    let mut cx = Ctx::from_args("eng_entry");
    let random = cx.args.u64("random", 0);
    let tiny = cx.args.flag("tiny");
    let budget = cx.budget;
    let mut e = Ent { cx: &mut cx, case_no: 0 };
    if budget > 0 {
        if tiny {
            e.space::<0>(2);
            e.space::<1>(2);
            e.space::<2>(3);
        } else {
            e.space::<0>(4);
            e.space::<1>(4);
            e.space::<2>(4);
            e.space::<3>(4);
            e.space::<4>(4);
            e.space::<8>(4);
        }
        if e.cx.shard.0 == 0 && e.cx.only_hist.is_none() {
            e.zst::<1>();
            e.zst::<2>();
            e.zst::<3>();
        }
        e.cx.rep.exhaustive = e.cx.only_hist.is_none();
        if random > 0 {
            e.random::<8>(random / 2);
            e.random::<16>(random / 2);
            e.random::<70>(random / 20 + 4);
        }
    }
    cx.finish();
}
