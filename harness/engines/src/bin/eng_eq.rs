//! C14 engine binary: extensional equality on the exhaustive pair space.
use engines::common::Ctx;
use engines::eqclone::Eqc;
use engines::fam::{Copyf, OddF, TinyF, Track, WordF};

fn main() {
    let mut cx = Ctx::from_args("eng_eq");
    let random = cx.args.u64("random", 0);
    let tiny = cx.args.flag("tiny");
    let budget = cx.budget;
    let mut e = Eqc { cx: &mut cx, group: 0 };
    if budget > 0 {
        if tiny {
            e.map_pairs::<Track, 2, 3>(3);
            e.set_pairs::<Track, 3, 2>(3);
        } else {
            e.map_pairs::<Track, 4, 4>(4);
            e.map_pairs::<Track, 4, 8>(4);
            e.map_pairs::<Track, 8, 4>(4);
            e.map_pairs::<Track, 2, 4>(4);
            e.map_pairs::<Track, 4, 3>(4);
            e.map_pairs::<Track, 0, 4>(4);
            e.map_pairs::<Track, 4, 0>(4);
            e.map_pairs::<Track, 0, 0>(4);
            e.map_pairs::<Track, 1, 1>(4);
            e.map_pairs::<Track, 2, 2>(4);
            e.map_pairs::<Track, 3, 3>(4);
            e.map_pairs::<Copyf, 4, 4>(4);
            e.map_pairs::<Copyf, 4, 5>(4);
            e.set_pairs::<Track, 4, 4>(4);
            e.set_pairs::<Track, 4, 8>(4);
            e.set_pairs::<Track, 8, 4>(4);
            e.set_pairs::<Track, 2, 4>(4);
            e.set_pairs::<Track, 0, 3>(4);
            e.set_pairs::<Track, 1, 1>(4);
            e.set_pairs::<Track, 2, 2>(4);
            e.set_pairs::<Track, 3, 3>(4);
            e.set_pairs::<Copyf, 4, 5>(4);
            // drop-less keys whose == is not bit equality (equal keys of the two operands differ in their tag bits)
            e.map_pairs::<TinyF, 4, 4>(3);
            e.set_pairs::<TinyF, 4, 3>(4);
            e.map_pairs::<WordF, 3, 4>(3);
            e.set_pairs::<WordF, 4, 4>(4);
            e.set_pairs::<OddF, 3, 4>(4);
        }
        if e.cx.shard.0 == 0 && e.cx.only_hist.is_none() {
            e.zst_pairs::<2, 2>();
            e.zst_pairs::<1, 3>();
            e.zst_pairs::<3, 0>();
            e.zst_values::<3, 3>();
            e.zst_values::<2, 4>();
        }
        e.cx.rep.exhaustive = e.cx.only_hist.is_none();
        if random > 0 {
            e.random_histories::<Track, 4, 4>(random / 4);
            e.random_histories::<Track, 8, 5>(random / 4);
            e.random_histories::<Track, 3, 16>(random / 4);
            e.random_histories::<Copyf, 8, 8>(random / 4);
            e.big_pairs::<Copyf, 40, 70>(random / 20 + 4);
            e.big_pairs::<Copyf, 70, 36>(random / 20 + 4);
            e.big_pairs::<Copyf, 300, 300>(random / 200 + 2);
            e.big_pairs::<TinyF, 20, 24>(random / 20 + 4);
            e.big_pairs::<WordF, 40, 70>(random / 20 + 4);
            e.big_pairs::<OddF, 12, 16>(random / 20 + 4);
            e.big_pairs::<Track, 12, 9>(random / 20 + 4);
        }
    }
    cx.finish();
}
