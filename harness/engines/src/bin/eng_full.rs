//! C03 engine binary: every safe insertion entry point against full containers.
use engines::common::Ctx;
use engines::fam::{AlignF, Copyf, Fam, Heap, K12F, Large, OddF, Raw, TinyF, Track, WordF};
use engines::full::Full;

fn family<F: Fam>(f: &mut Full, states: u64, big: bool) {
    let (si, sn) = f.cx.shard;
    let mut h = si;
    let mut done = 0;
    while done < states {
        if let Some(only) = f.cx.only_hist {
            h = only;
        }
        f.map_state::<F, 0>(h);
        f.map_state::<F, 1>(h);
        f.map_state::<F, 2>(h);
        f.map_state::<F, 3>(h);
        f.map_state::<F, 4>(h);
        f.set_state::<F, 0>(h);
        f.set_state::<F, 1>(h);
        f.set_state::<F, 2>(h);
        f.set_state::<F, 4>(h);
        f.collect_overflow::<F, 0>(h);
        f.collect_overflow::<F, 1>(h);
        f.collect_overflow::<F, 3>(h);
        f.collect_fits::<F, 1>(h);
        f.collect_fits::<F, 2>(h);
        f.collect_fits::<F, 4>(h);
        if big {
            f.map_state::<F, 8>(h);
            f.map_state::<F, 16>(h);
            f.set_state::<F, 8>(h);
            f.collect_overflow::<F, 8>(h);
        }
        h += sn;
        done += 1;
        if f.cx.only_hist.is_some() || f.cx.rep.viol_total > 100 {
            break;
        }
    }
}

fn main() {
    let mut cx = Ctx::from_args("eng_full");
    let fams: Vec<String> = cx.args.str("fam", "track,copy,raw,large,zst").split(',').map(str::to_string).collect();
    let exact = cx.args.flag("exact");
    let states = cx.budget;
    let mut f = Full { cx: &mut cx, case_no: 0, exact };
    for fam in &fams {
        match fam.as_str() {
            "track" => family::<Track>(&mut f, states, true),
            "copy" => {
                family::<Copyf>(&mut f, states, true);
                // capacities beyond the 32- and 64-slot marks
                let (si, sn) = f.cx.shard;
                for i in 0..states.min(6) {
                    f.map_state::<Copyf, 40>(si + i * sn);
                    f.map_state::<Copyf, 70>(si + i * sn);
                    f.set_state::<Copyf, 40>(si + i * sn);
                }
            }
            "raw" => family::<Raw>(&mut f, states, true),
            "heap" => family::<Heap>(&mut f, states, true),
            "large" => family::<Large>(&mut f, states.min(40), false),
            // drop-less elements of unusual size / alignment whose == is not bit equality
            "tiny" => family::<TinyF>(&mut f, states.min(60), false),
            "word" => family::<WordF>(&mut f, states.min(60), false),
            "odd" => family::<OddF>(&mut f, states.min(60), false),
            "k12" => family::<K12F>(&mut f, states.min(60), false),
            "align" => family::<AlignF>(&mut f, states.min(40), false),
            "zst" => {
                if states > 0 {
                    f.zst::<0>();
                    f.zst::<1>();
                    f.zst::<2>();
                    f.zst::<5>();
                    f.zst::<16>();
                    f.with_capacity::<0>();
                    f.with_capacity::<1>();
                    f.with_capacity::<4>();
                }
            }
            other => panic!("unknown family {}", other),
        }
    }
    cx.finish();
}
