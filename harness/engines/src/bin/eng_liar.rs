//! C17 engine binary: misbehaving Eq / Borrow, safety monitors only.
use engines::common::Ctx;
use engines::fam::{Heap, Track};
use engines::liar::{overfill, stats, Liar, NeverEq};

fn main() {
    let mut cx = Ctx::from_args("eng_liar");
    let fams: Vec<String> = cx.args.str("fam", "track").split(',').map(str::to_string).collect();
    let caps = cx.args.list("caps", &[0, 1, 2, 3, 4, 8]);
    let max_steps = cx.args.usize("max-steps", 64);
    let mut l = Liar { cx: &mut cx, failed: false, panics: 0 };
    let budget = l.cx.budget;
    let (si, sn) = l.cx.shard;
    let mut h = si;
    if budget > 0 && l.cx.only_hist.is_none() {
        // small key spaces under a lying ==
        use support::elems::{z_set_eq, Z};
        z_set_eq(false);
        overfill::<Z, 1>(&mut l, "Z(zero-sized)", &|_| Z::new());
        overfill::<Z, 3>(&mut l, "Z(zero-sized)", &|_| Z::new());
        overfill::<Z, 8>(&mut l, "Z(zero-sized)", &|_| Z::new());
        z_set_eq(true);
        overfill::<NeverEq, 2>(&mut l, "NeverEq(1 byte)", &|i| NeverEq(i as u8));
        if si == 0 && !l.cx.args.flag("light") {
            overfill::<NeverEq, 256>(&mut l, "NeverEq(1 byte)", &|i| NeverEq(i as u8));
            overfill::<NeverEq, 300>(&mut l, "NeverEq(1 byte)", &|i| NeverEq(i as u8));
        }
    }
    while l.cx.rep.evaluations < budget {
        if let Some(o) = l.cx.only_hist {
            h = o;
        }
        let mut rng = l.cx.hist_rng(h);
        let fam = fams[rng.usize_below(fams.len())].clone();
        let n = caps[rng.usize_below(caps.len())];
        macro_rules! go {
            ($F:ty) => {
                match n {
                    0 => l.history::<$F, 0>(h, rng, max_steps),
                    1 => l.history::<$F, 1>(h, rng, max_steps),
                    2 => l.history::<$F, 2>(h, rng, max_steps),
                    3 => l.history::<$F, 3>(h, rng, max_steps),
                    4 => l.history::<$F, 4>(h, rng, max_steps),
                    8 => l.history::<$F, 8>(h, rng, max_steps),
                    16 => l.history::<$F, 16>(h, rng, max_steps),
                    other => panic!("capacity {} not monomorphised", other),
                }
            };
        }
        match fam.as_str() {
            "track" => go!(Track),
            "heap" => go!(Heap),
            other => panic!("unknown family {}", other),
        }
        l.cx.rep.histories += 1;
        h += sn;
        if l.cx.only_hist.is_some() || l.cx.rep.viol_total > 100 {
            break;
        }
    }
    stats(&mut l);
    cx.finish();
}
