//! C17 engine binary: misbehaving Eq / Borrow, safety monitors only.
use engines::common::Ctx;
use engines::fam::{Heap, Track};
use engines::liar::{stats, Liar};

fn main() {
    let mut cx = Ctx::from_args("eng_liar");
    let fams: Vec<String> = cx.args.str("fam", "track").split(',').map(str::to_string).collect();
    let caps = cx.args.list("caps", &[0, 1, 2, 3, 4, 8]);
    let max_steps = cx.args.usize("max-steps", 64);
    let mut l = Liar { cx: &mut cx, failed: false, panics: 0 };
    let budget = l.cx.budget;
    let (si, sn) = l.cx.shard;
    let mut h = si;
    while l.cx.rep.evaluations < budget {
        if let Some(o) = l.cx.only_hist {
            h = o;
        }
        let mut rng = l.cx.hist_rng(h);
        let fam = fams[rng.usize_below(fams.len())].clone();
        let n = caps[rng.usize_below(caps.len())];
        macro_rules! go {
            ($F:ty) => {
                match n {
                    0 => l.history::<$F, 0>(h, rng, max_steps),
                    1 => l.history::<$F, 1>(h, rng, max_steps),
                    2 => l.history::<$F, 2>(h, rng, max_steps),
                    3 => l.history::<$F, 3>(h, rng, max_steps),
                    4 => l.history::<$F, 4>(h, rng, max_steps),
                    8 => l.history::<$F, 8>(h, rng, max_steps),
                    16 => l.history::<$F, 16>(h, rng, max_steps),
                    other => panic!("capacity {} not monomorphised", other),
                }
            };
        }
        match fam.as_str() {
            "track" => go!(Track),
            "heap" => go!(Heap),
            other => panic!("unknown family {}", other),
        }
        l.cx.rep.histories += 1;
        h += sn;
        if l.cx.only_hist.is_some() || l.cx.rep.viol_total > 100 {
            break;
        }
    }
    stats(&mut l);
    cx.finish();
}
