//! Map history engine binary (C01, C02, C05, C09, C10, C12, C15, C19 — Map side).
use engines::common::Ctx;
use engines::fam::{AlignF, K12F, OddF, PathF, Copyf, Large, NoDrop, Raw, TinyF, Track, WordF, Zst};
use engines::maphist::{history, required_rows};

fn main() {
    let mut cx = Ctx::from_args("eng_map");
    let fams: Vec<String> = cx.args.str("fam", "track,copy").split(',').map(str::to_string).collect();
    let caps = cx.args.list("caps", &[0, 1, 2, 3, 4, 8, 40, 70]);
    let max_steps = cx.args.usize("max-steps", 96);
    cx.rep.required = required_rows(&cx.prop.clone()).iter().map(|s| s.to_string()).collect();
    cx.run_histories(|cx, hist| {
        let mut rng = cx.hist_rng(hist);
        let fam = fams[rng.usize_below(fams.len())].clone();
        let supported: &[usize] = match fam.as_str() {
            "track" => &[0, 1, 2, 3, 4, 5, 8, 16, 32],
            "large" => &[1, 2, 4],
            "copy" => &[0, 1, 2, 3, 4, 8, 40, 70],
            "tiny" => &[1, 3, 8],
            "word" => &[0, 2, 8],
            "align" => &[1, 2, 5],
            "odd" => &[2, 4, 8, 16],
            "k12" => &[1, 3, 4, 8],
            _ => &[0, 1, 2, 3, 4, 8],
        };
        let usable: Vec<usize> = caps.iter().copied().filter(|c| supported.contains(c)).collect();
        let mut n = if usable.is_empty() { supported[0] } else { usable[rng.usize_below(usable.len())] };
        // slot numbers beyond one byte: rarely (a history at this capacity costs as much as hundreds of small ones)
        if fam == "copy" && caps.contains(&70) && !cx.args.flag("light") && rng.chance(1, 1200) {
            n = 300;
        }
        match fam.as_str() {
            "track" => engines::dispatch_n!(n, [0, 1, 2, 3, 4, 5, 8, 16, 32], history, Track, (cx, hist, rng, max_steps)),
            "copy" => engines::dispatch_n!(n, [0, 1, 2, 3, 4, 8, 40, 70, 300], history, Copyf, (cx, hist, rng, max_steps)),
            "tiny" => engines::dispatch_n!(n, [1, 3, 8], history, TinyF, (cx, hist, rng, max_steps)),
            "word" => engines::dispatch_n!(n, [0, 2, 8], history, WordF, (cx, hist, rng, max_steps)),
            "align" => engines::dispatch_n!(n, [1, 2, 5], history, AlignF, (cx, hist, rng, max_steps)),
            "odd" => engines::dispatch_n!(n, [2, 4, 8, 16], history, OddF, (cx, hist, rng, max_steps)),
            "k12" => engines::dispatch_n!(n, [1, 3, 4, 8], history, K12F, (cx, hist, rng, max_steps)),
            "raw" => engines::dispatch_n!(n, [0, 1, 2, 3, 4, 8], history, Raw, (cx, hist, rng, max_steps)),
            "path" => engines::dispatch_n!(n, [0, 1, 2, 3, 4, 8], history, PathF, (cx, hist, rng, max_steps)),
            "large" => engines::dispatch_n!(n, [1, 2, 4], history, Large, (cx, hist, rng, max_steps)),
            "zst" => engines::dispatch_n!(n, [0, 1, 2, 3, 4, 8], history, Zst, (cx, hist, rng, max_steps)),
            "nodrop" => engines::dispatch_n!(n, [0, 1, 2, 3, 4, 8], history, NoDrop, (cx, hist, rng, max_steps)),
            other => panic!("unknown family {}", other),
        }
    });
    cx.finish();
}
