//! C06 engine binary: allocation windows under a counting global allocator.
use engines::common::Ctx;
use engines::noheap::{BigK, BigV, Nh};

#[global_allocator]
static A: support::alloc::Counting = support::alloc::Counting;

fn main() {
    let mut cx = Ctx::from_args("eng_noheap");
    let steps = cx.args.usize("max-steps", 48);
    let budget = cx.budget;
    let (si, sn) = cx.shard;
    let mut n = Nh { cx: &mut cx, windows: 0, refs_checked: 0, hist: 0, descr: String::new(), last_ops: Vec::new() };
    if budget > 0 {
        if !n.self_check() {
            n.finish();
            cx.finish();
        }
        n.zst::<0>();
        n.zst::<3>();
        n.zst::<16>();
        let mut h = si;
        while n.cx.rep.evaluations < budget {
            if let Some(o) = n.cx.only_hist {
                h = o;
            }
            let mut rng = n.cx.hist_rng(h);
            match rng.below(19) {
                0 => n.map_history::<u32, u32, 0>(h, rng, steps),
                1 => n.map_history::<u32, u32, 1>(h, rng, steps),
                2 => n.map_history::<u32, u32, 2>(h, rng, steps),
                3 => n.map_history::<u32, u32, 4>(h, rng, steps),
                4 => n.map_history::<u32, u32, 8>(h, rng, steps),
                5 => n.map_history::<u32, BigV, 3>(h, rng, steps),
                6 => n.map_history::<BigK, BigV, 4>(h, rng, steps),
                7 => n.map_history::<BigK, u32, 16>(h, rng, steps),
                8 => n.set_history::<u32, 4, 4>(h, rng, steps),
                9 => n.set_history::<u32, 8, 3>(h, rng, steps),
                10 => n.set_history::<BigK, 3, 5>(h, rng, steps),
                // containers larger than a page (16 KiB, 8 KiB, 10 KiB)
                11 => n.map_history::<u32, BigV, 32>(h, rng, steps),
                12 => n.set_history::<BigK, 64, 4>(h, rng, steps),
                13 => n.map_history::<BigK, BigV, 16>(h, rng, steps),
                // operands with more than 64 elements (slot numbers beyond one machine word of mask bits)
                14 => n.set_history::<u32, 80, 72>(h, rng, steps),
                15 => n.set_history::<u32, 3, 130>(h, rng, steps),
                16 => n.dropglue::<4, 3>(h, rng),
                17 => n.dropglue::<8, 16>(h, rng),
                _ => n.set_history::<u32, 0, 2>(h, rng, steps),
            }
            n.cx.rep.histories += 1;
            if n.cx.rep.samples.len() < 3 {
                let s = format!("{}: windows {:?}", n.descr, &n.last_ops[..n.last_ops.len().min(14)]);
                n.cx.rep.sample(s);
            }
            h += sn;
            if n.cx.only_hist.is_some() || n.cx.rep.viol_total > 50 {
                break;
            }
        }
    }
    n.finish();
    cx.finish();
}
