//! C04 engine binary: single-shot panic at every user-callback tick of every operation.
use engines::common::Ctx;
use engines::fam::{Heap, Large, NoDrop, Track};
use engines::panicsafe::{finish_stats, new_drv, Drv};

const OTHERS: [&[u32]; 4] = [&[], &[1, 2], &[3, 2, 9], &[4]];

fn space<F: engines::fam::Fam>(d: &mut Drv, caps: &[usize], universe: u32) {
    for n in caps {
        match n {
            0 => {
                d.map_space::<F, 0>(universe);
                d.set_space::<F, 0, 4>(universe, &OTHERS);
            }
            1 => {
                d.map_space::<F, 1>(universe);
                d.set_space::<F, 1, 4>(universe, &OTHERS);
            }
            2 => {
                d.map_space::<F, 2>(universe);
                d.set_space::<F, 2, 4>(universe, &OTHERS);
            }
            3 => {
                d.map_space::<F, 3>(universe);
                d.set_space::<F, 3, 2>(universe, &OTHERS);
            }
            4 => {
                d.map_space::<F, 4>(universe);
                d.set_space::<F, 4, 4>(universe, &OTHERS);
            }
            _ => panic!("capacity {} not in the exhaustive sub-space", n),
        }
    }
}

fn main() {
    let mut cx = Ctx::from_args("eng_panic");
    let fam = cx.args.str("fam", "track");
    let caps = cx.args.list("space", &[0, 1, 2, 3, 4]);
    let universe = cx.args.u64("universe", 4) as u32;
    let big = cx.args.u64("big", 0);
    let budget = cx.budget;
    let stride = cx.args.u64("stride", 1).max(1);
    let seed = cx.seed;
    let mut d = new_drv(&mut cx);
    d.stride = stride;
    d.only_op = d.cx.args.kv.get("only-op").cloned();
    d.phase = support::rng::mix(seed) % stride;
    if budget > 0 {
        match fam.as_str() {
            "track" => space::<Track>(&mut d, &caps, universe),
            "heap" => space::<Heap>(&mut d, &caps, universe),
            "large" => space::<Large>(&mut d, &caps, universe),
            // elements without drop glue whose Clone / == can unwind
            "nodrop" => space::<NoDrop>(&mut d, &caps, universe),
            other => panic!("unknown family {}", other),
        }
        d.cx.rep.exhaustive = d.cx.only_hist.is_none() && stride == 1;
        if big > 0 && d.cx.only_hist.is_none() {
            match fam.as_str() {
                "track" => {
                    d.random_big::<Track, 8>(big / 2);
                    d.random_big::<Track, 16>(big / 2);
                    d.random_big::<Track, 40>(big / 20);
                }
                "large" => d.random_big::<Large, 8>(big),
                "nodrop" => d.random_big::<NoDrop, 8>(big),
                _ => {
                    d.random_big::<Heap, 8>(big / 2);
                    d.random_big::<Heap, 16>(big / 2);
                }
            }
            d.cx.rep.exhaustive = false;
        }
    }
    finish_stats(&mut d);
    cx.finish();
}
