//! C20 engine binary (needs `--features serde`).
use engines::common::Ctx;
use engines::serdeeng::Sd;

fn main() {
    let mut cx = Ctx::from_args("eng_serde");
    let budget = cx.budget;
    let (si, sn) = cx.shard;
    let mut s = Sd { cx: &mut cx, case_no: 0 };
    let mut h = si;
    while s.cx.rep.evaluations < budget {
        if let Some(o) = s.cx.only_hist {
            h = o;
        }
        match h % 19 {
            0 => s.map_case::<u32, u32, 0, 0, 3, 1>(h),
            1 => s.map_case::<u32, u32, 1, 1, 4, 0>(h),
            2 => s.map_case::<u32, u32, 4, 7, 2, 3>(h),
            3 => s.map_case::<u8, i64, 8, 11, 4, 6>(h),
            4 => s.map_case::<String, u32, 4, 7, 3, 1>(h),
            5 => s.map_case::<i64, bool, 8, 8, 5, 16>(h),
            6 => s.map_case::<u32, String, 16, 19, 8, 12>(h),
            7 => s.map_case::<String, String, 5, 8, 2, 4>(h),
            8 => s.map_case::<bool, u8, 3, 2, 1, 6>(h),
            9 => s.set_case::<u32, 4, 7, 2>(h),
            10 => s.set_case::<String, 8, 11, 4>(h),
            11 => s.set_case::<u8, 16, 19, 9>(h),
            12 => s.set_case::<i64, 0, 3, 0>(h),
            13 => s.set_case::<engines::serdeeng::Zs, 2, 3, 1>(h),
            14 => s.map_case::<engines::serdeeng::Zs, engines::serdeeng::Zs, 3, 3, 1, 4>(h),
            15 => s.map_case::<engines::serdeeng::Zs, u32, 2, 2, 1, 3>(h),
            16 => s.set_case::<engines::serdeeng::Tri, 3, 4, 2>(h),
            17 => s.map_case::<engines::serdeeng::Tri, u8, 2, 3, 2, 5>(h),
            _ => s.set_case::<u32, 1, 1, 5>(h),
        }
        s.cx.rep.histories += 1;
        h += sn;
        if s.cx.only_hist.is_some() || s.cx.rep.viol_total > 50 {
            break;
        }
    }
    cx.finish();
}
