//! C16 engine: bulk construction == inserting the items one by one, in order.
//!
//! Item sequences: ALL sequences of length 0..=L over a 4-class universe (every repetition
//! pattern, lengths below, at and above N) for small N, random sequences for larger N.
//! Entry points: Map collect / From<[_; N]>, Set collect / From<[_; N]> / Extend<T> /
//! Extend<&T>.  Oracles: (1) a fold of single inserts in the model (first key object kept,
//! last value wins, repeats consume no capacity, panic exactly at the first new key that does
//! not fit), (2) a twin container built by literally inserting one by one, (3) a recording
//! source iterator (pulled exactly once per item, front to back, no pull after None, nothing
//! pulled after the item that overflowed), (4) the ledger (every item object ends up stored or
//! destroyed exactly once).

use crate::common::Ctx;
use crate::fam::{Fam, KeyF, ValF};
use micromap::{Map, Set};
use support::fault::{self, Caught};
use support::elems::{z_live, z_set_eq, Z};
use support::glob::Global;
use support::ledger;
use support::rng::{Fp, Rng};

static PULLS: Global<Vec<i64>> = Global::new(Vec::new());

/// source iterator that logs the index of every item it hands out (-1 for `None`)
struct Rec<T> {
    items: std::vec::IntoIter<T>,
    next_ix: i64,
    hint: u8,
}
impl<T> Iterator for Rec<T> {
    type Item = T;
    fn next(&mut self) -> Option<T> {
        let r = self.items.next();
        let ix = if r.is_some() { self.next_ix } else { -1 };
        self.next_ix += 1;
        PULLS.with(|p| p.push(ix));
        r
    }
    fn size_hint(&self) -> (usize, Option<usize>) {
        // every honest shape of hint a std source can have: exact (Vec, array), no upper bound
        // (from_fn, flat_map, successors), a lower bound only (chain of exact + unbounded), a
        // useless upper bound (filter over a huge range)
        let (lo, _) = self.items.size_hint();
        match self.hint {
            0 => (lo, Some(lo)),
            1 => (0, None),
            2 => (lo, None),
            _ => (0, Some(usize::MAX)),
        }
    }
}
static HINT_TURN: Global<u8> = Global::new(0);
fn rec<T>(v: Vec<T>) -> Rec<T> {
    PULLS.with(|p| p.clear());
    let hint = HINT_TURN.with(|h| {
        *h = (*h + 1) % 7;
        // exact hints most of the time, each other shape once per turn of seven
        match *h {
            2 => 1,
            4 => 2,
            6 => 3,
            _ => 0,
        }
    });
    Rec { items: v.into_iter(), next_ix: 0, hint }
}

pub struct Bulk<'a> {
    pub cx: &'a mut Ctx,
    pub case_no: u64,
}

fn v(what: &str, msg: String) {
    let (_, _, op) = ledger::ctx();
    ledger::violation("C16", format!("{}@{}", what, op), msg);
}

/// model: (class, tag of the stored key, payload) in insertion order; returns the index of the
/// item that overflows, if any
fn fold_model(start: &[(u32, u32, u32)], cap: usize, items: &[(u32, u32, u32)], is_set: bool) -> (Vec<(u32, u32, u32)>, Option<usize>) {
    let mut m: Vec<(u32, u32, u32)> = start.to_vec();
    for (i, (c, t, p)) in items.iter().enumerate() {
        if let Some(e) = m.iter_mut().find(|e| e.0 == *c) {
            if !is_set {
                e.2 = *p;
            }
        } else if m.len() < cap {
            m.push((*c, *t, *p));
        } else {
            return (m, Some(i));
        }
    }
    (m, None)
}

fn check_pulls(name: &str, descr: &str, n_items: usize, overflow: Option<usize>) {
    let pulls = PULLS.with(|p| p.clone());
    let want: Vec<i64> = match overflow {
        Some(i) => (0..=i as i64).collect(),
        None => (0..n_items as i64).chain(std::iter::once(-1)).collect(),
    };
    if pulls != want {
        v("source-consumption", format!("{} [{}]: the source was pulled as {:?} (index of each item handed out, -1 = None); expected exactly {:?}", name, descr, pulls, want));
    }
}

impl<'a> Bulk<'a> {
    fn cmp_map<F: Fam, const N: usize>(&mut self, name: &str, descr: &str, got: &Map<F::K, F::V, N>, want: &[(u32, u32, u32)]) {
        let mut g: Vec<(u32, u32, u32)> = got
            .iter()
            .map(|(k, x)| {
                k.chk("bulk key");
                x.chk("bulk value");
                (k.class(), k.tag(), x.payload())
            })
            .collect();
        let mut w: Vec<(u32, u32, u32)> = want.iter().map(|e| (e.0, if F::IDENT { <F::K as KeyF>::norm_tag(e.1) } else { 0 }, e.2)).collect();
        g.sort_unstable();
        w.sort_unstable();
        if g != w || got.len() != want.len() {
            v("contents", format!("{} [{}]: result holds (class, stored-key tag, value) {:?}; inserting one by one gives {:?}", name, descr, g, w));
        }
    }
    fn cmp_set<F: Fam, const N: usize>(&mut self, name: &str, descr: &str, got: &Set<F::K, N>, want: &[(u32, u32, u32)]) {
        let mut g: Vec<(u32, u32)> = got
            .iter()
            .map(|k| {
                k.chk("bulk element");
                (k.class(), k.tag())
            })
            .collect();
        let mut w: Vec<(u32, u32)> = want.iter().map(|e| (e.0, if F::IDENT { <F::K as KeyF>::norm_tag(e.1) } else { 0 })).collect();
        g.sort_unstable();
        w.sort_unstable();
        if g != w || got.len() != want.len() {
            v("contents", format!("{} [{}]: result holds (class, stored tag) {:?}; inserting one by one gives {:?}", name, descr, g, w));
        }
    }

    /// one item sequence through every bulk entry point of capacity N
    pub fn seq<F: Fam, const N: usize>(&mut self, classes: &[u32], start: &[u32]) {
        self.case_no += 1;
        let items: Vec<(u32, u32, u32)> = classes.iter().enumerate().map(|(i, c)| (*c, 100 + i as u32, 1000 + i as u32)).collect();
        let descr = format!("N={} fam={} items(class)={:?} start={:?}", N, F::NAME, classes, start);
        let mut fp = Fp::new(0xB01C + N as u64);
        for c in classes {
            fp.add(u64::from(*c));
        }
        fp.add(0xFFFF);
        for c in start {
            fp.add(u64::from(*c));
        }
        if !classes.is_empty() {
            self.cx.rep.fps.add(fp.get());
        }
        let distinct = {
            let mut d = classes.to_vec();
            d.sort_unstable();
            d.dedup();
            d.len()
        };
        let shape = if classes.len() > N && distinct <= N {
            "longer-than-N-but-fits"
        } else if distinct > N {
            "overflows"
        } else if distinct < classes.len() {
            "repeats"
        } else {
            "plain"
        };

        // ---- Map: collect
        if start.is_empty() {
            ledger::reset();
            ledger::set_ctx(self.case_no, 0, "Map::from_iter");
            self.cx.rep.evaluations += 1;
            self.cx.rep.hit(&format!("Map::from_iter:{}", shape));
            let (want, overflow) = fold_model(&[], N, &items, false);
            let src: Vec<(F::K, F::V)> = items.iter().map(|(c, t, p)| (F::K::mk(*c, *t), F::V::mk(*p))).collect();
            let r = fault::catch(|| rec(src).collect::<Map<F::K, F::V, N>>());
            match (r, overflow) {
                (Caught::Ok(m), None) => {
                    self.cmp_map::<F, N>("Map::from_iter", &descr, &m, &want);
                    // twin: literally one by one
                    let mut twin: Map<F::K, F::V, N> = Map::new();
                    for (c, t, p) in &items {
                        twin.insert(F::K::mk(*c, *t), F::V::mk(*p));
                    }
                    let mut a: Vec<(u32, u32, u32)> = m.iter().map(|(k, x)| (k.class(), k.tag(), x.payload())).collect();
                    let mut b: Vec<(u32, u32, u32)> = twin.iter().map(|(k, x)| (k.class(), k.tag(), x.payload())).collect();
                    a.sort_unstable();
                    b.sort_unstable();
                    if a != b {
                        v("twin", format!("Map::from_iter [{}] = {:?} but a map filled by single inserts = {:?}", descr, a, b));
                    }
                    if !(m == twin) {
                        v("twin", format!("Map::from_iter [{}] != the map filled by single inserts", descr));
                    }
                }
                (Caught::Panic(_), Some(_)) => {}
                (Caught::Ok(_), Some(i)) => v("no-panic-on-overflow", format!("Map::from_iter [{}] returned although item {} is a new key that does not fit", descr, i)),
                (Caught::Panic(msg), None) => v("panic-although-fits", format!("Map::from_iter [{}] panicked ({}) although at most N distinct keys are supplied", descr, msg)),
                (Caught::Injected(..), _) => unreachable!(),
            }
            check_pulls("Map::from_iter", &descr, items.len(), overflow);
            if F::TRACKED && ledger::alive_count() != 0 {
                v("leak", format!("Map::from_iter [{}]: {} item objects neither stored nor destroyed after everything was dropped", descr, ledger::alive_count()));
            }
        }
        // ---- Map / Set: From<[_; N]> (needs exactly N items)
        if start.is_empty() && classes.len() == N {
            ledger::reset();
            ledger::set_ctx(self.case_no, 0, "Map::from(array)");
            self.cx.rep.evaluations += 1;
            self.cx.rep.hit(&format!("Map::from(array):{}", shape));
            let (want, _) = fold_model(&[], N, &items, false);
            let mut it = items.iter();
            let arr: [(F::K, F::V); N] = core::array::from_fn(|_| {
                let (c, t, p) = it.next().unwrap();
                (F::K::mk(*c, *t), F::V::mk(*p))
            });
            match fault::catch(|| Map::<F::K, F::V, N>::from(arr)) {
                Caught::Ok(m) => self.cmp_map::<F, N>("Map::from(array)", &descr, &m, &want),
                Caught::Panic(msg) => v("panic-although-fits", format!("Map::from([_; N]) [{}] panicked: {}", descr, msg)),
                Caught::Injected(..) => unreachable!(),
            }
            ledger::set_ctx(self.case_no, 0, "Set::from(array)");
            self.cx.rep.evaluations += 1;
            self.cx.rep.hit(&format!("Set::from(array):{}", shape));
            let (want, _) = fold_model(&[], N, &items, true);
            let mut it = items.iter();
            let arr: [F::K; N] = core::array::from_fn(|_| {
                let (c, t, _) = it.next().unwrap();
                F::K::mk(*c, *t)
            });
            match fault::catch(|| Set::<F::K, N>::from(arr)) {
                Caught::Ok(m) => self.cmp_set::<F, N>("Set::from(array)", &descr, &m, &want),
                Caught::Panic(msg) => v("panic-although-fits", format!("Set::from([_; N]) [{}] panicked: {}", descr, msg)),
                Caught::Injected(..) => unreachable!(),
            }
            if F::TRACKED && ledger::alive_count() != 0 {
                v("leak", format!("From<[_; N]> [{}]: {} objects alive after everything was dropped", descr, ledger::alive_count()));
            }
        }
        // ---- Set: collect
        if start.is_empty() {
            ledger::reset();
            ledger::set_ctx(self.case_no, 0, "Set::from_iter");
            self.cx.rep.evaluations += 1;
            self.cx.rep.hit(&format!("Set::from_iter:{}", shape));
            let (want, overflow) = fold_model(&[], N, &items, true);
            let src: Vec<F::K> = items.iter().map(|(c, t, _)| F::K::mk(*c, *t)).collect();
            let r = fault::catch(|| rec(src).collect::<Set<F::K, N>>());
            match (r, overflow) {
                (Caught::Ok(m), None) => self.cmp_set::<F, N>("Set::from_iter", &descr, &m, &want),
                (Caught::Panic(_), Some(_)) => {}
                (Caught::Ok(_), Some(i)) => v("no-panic-on-overflow", format!("Set::from_iter [{}] returned although item {} is a new element that does not fit", descr, i)),
                (Caught::Panic(msg), None) => v("panic-although-fits", format!("Set::from_iter [{}] panicked ({}) although at most N distinct elements are supplied", descr, msg)),
                (Caught::Injected(..), _) => unreachable!(),
            }
            check_pulls("Set::from_iter", &descr, items.len(), overflow);
            if F::TRACKED && ledger::alive_count() != 0 {
                v("leak", format!("Set::from_iter [{}]: {} objects alive after everything was dropped", descr, ledger::alive_count()));
            }
        }
        // ---- Set: Extend<T> onto an existing set
        {
            ledger::reset();
            ledger::set_ctx(self.case_no, 0, "Set::extend");
            self.cx.rep.evaluations += 1;
            self.cx.rep.hit(&format!("Set::extend:{}:{}", shape, if start.is_empty() { "onto-empty" } else if start.len() >= N { "onto-full" } else { "onto-partial" }));
            let st: Vec<(u32, u32, u32)> = start.iter().enumerate().map(|(i, c)| (*c, 10 + i as u32, 0)).collect();
            let mut s: Set<F::K, N> = Set::new();
            for (c, t, _) in &st {
                s.insert(F::K::mk(*c, *t));
            }
            let (want, overflow) = fold_model(&st, N, &items, true);
            let src: Vec<F::K> = items.iter().map(|(c, t, _)| F::K::mk(*c, *t)).collect();
            let r = fault::catch(|| s.extend(rec(src)));
            match (&r, overflow) {
                (Caught::Ok(()), None) | (Caught::Panic(_), Some(_)) => {}
                (Caught::Ok(()), Some(i)) => v("no-panic-on-overflow", format!("Set::extend [{}] returned although item {} is a new element that does not fit", descr, i)),
                (Caught::Panic(msg), None) => v("panic-although-fits", format!("Set::extend [{}] panicked ({}) although everything fits", descr, msg)),
                (Caught::Injected(..), _) => unreachable!(),
            }
            // also after a panic the set is what single inserts would have left behind
            self.cmp_set::<F, N>("Set::extend", &descr, &s, &want);
            check_pulls("Set::extend", &descr, items.len(), overflow);
            drop(s);
            if F::TRACKED && ledger::alive_count() != 0 {
                v("leak", format!("Set::extend [{}]: {} objects alive after everything was dropped", descr, ledger::alive_count()));
            }
        }
        // ---- the crate's own iterators as the bulk source: "in order" is the order in which the source's
        // next() hands the items out, whatever way the constructor chooses to consume it (for loop, for_each,
        // fold, by_ref + take ...); a source container of 8 slots holds the item descriptors under unique ordinals
        if start.is_empty() && !classes.is_empty() && classes.len() <= 8 {
            type Item3 = (u32, u32, u32);
            let mut srcmap: Map<u32, Item3, 8> = Map::new();
            let mut srcset: Set<u32, 8> = Set::new();
            for (i, it) in items.iter().enumerate() {
                srcmap.insert(i as u32, *it);
                srcset.insert(i as u32);
            }
            // churn so that the slot order is not the insertion order
            if classes.len() >= 3 && self.case_no % 2 == 0 {
                let e = srcmap.remove(&0).unwrap();
                srcmap.insert(0, e);
                srcset.remove(&0);
                srcset.insert(0);
            }
            for kind in 0..7usize {
                let kname = ["into_iter().map", "into_values().map", "drain().map", "iter().map", "values().map", "Set::into_iter().map", "Set::iter().map"][kind];
                ledger::reset();
                ledger::set_ctx(self.case_no, kind as u32, "own-iterator-source");
                self.cx.rep.evaluations += 1;
                self.cx.rep.hit(&format!("own-source:{}:{}", kname, shape));
                // the order next() gives on an identical source
                let order: Vec<Item3> = match kind {
                    0 => { let mut o = Vec::new(); let mut it = srcmap.clone().into_iter(); while let Some((_, d)) = it.next() { o.push(d); } o }
                    1 => { let mut o = Vec::new(); let mut it = srcmap.clone().into_values(); while let Some(d) = it.next() { o.push(d); } o }
                    2 => { let mut o = Vec::new(); let mut c = srcmap.clone(); let mut it = c.drain(); while let Some((_, d)) = it.next() { o.push(d); } o }
                    3 => { let mut o = Vec::new(); let mut it = srcmap.iter(); while let Some((_, d)) = it.next() { o.push(*d); } o }
                    4 => { let mut o = Vec::new(); let mut it = srcmap.values(); while let Some(d) = it.next() { o.push(*d); } o }
                    5 => { let mut o = Vec::new(); let mut it = srcset.clone().into_iter(); while let Some(i) = it.next() { o.push(items[i as usize]); } o }
                    _ => { let mut o = Vec::new(); let mut it = srcset.iter(); while let Some(i) = it.next() { o.push(items[*i as usize]); } o }
                };
                let (want_m, over_m) = fold_model(&[], N, &order, false);
                let (want_s, over_s) = fold_model(&[], N, &order, true);
                let mkp = |d: Item3| (F::K::mk(d.0, d.1), F::V::mk(d.2));
                let mkk = |d: Item3| F::K::mk(d.0, d.1);
                let items2 = items.clone();
                let rm = fault::catch(|| -> Map<F::K, F::V, N> {
                    match kind {
                        0 => srcmap.clone().into_iter().map(|(_, d)| mkp(d)).collect(),
                        1 => srcmap.clone().into_values().map(mkp).collect(),
                        2 => srcmap.clone().drain().map(|(_, d)| mkp(d)).collect(),
                        3 => srcmap.iter().map(|(_, d)| mkp(*d)).collect(),
                        4 => srcmap.values().map(|d| mkp(*d)).collect(),
                        5 => srcset.clone().into_iter().map(|i| mkp(items2[i as usize])).collect(),
                        _ => srcset.iter().map(|i| mkp(items2[*i as usize])).collect(),
                    }
                });
                match (rm, over_m) {
                    (Caught::Ok(m), None) => self.cmp_map::<F, N>("Map::from_iter(own iterator)", &format!("{} source={}", descr, kname), &m, &want_m),
                    (Caught::Panic(_), Some(_)) => {}
                    (Caught::Ok(_), Some(i)) => v("no-panic-on-overflow", format!("Map::from_iter [{} source={}] returned although item {} (in next() order) is a new key that does not fit", descr, kname, i)),
                    (Caught::Panic(msg), None) => v("panic-although-fits", format!("Map::from_iter [{} source={}] panicked ({}) although at most N distinct keys are supplied", descr, kname, msg)),
                    (Caught::Injected(..), _) => unreachable!(),
                }
                let rs = fault::catch(|| -> Set<F::K, N> {
                    match kind {
                        0 => srcmap.clone().into_iter().map(|(_, d)| mkk(d)).collect(),
                        1 => srcmap.clone().into_values().map(mkk).collect(),
                        2 => srcmap.clone().drain().map(|(_, d)| mkk(d)).collect(),
                        3 => srcmap.iter().map(|(_, d)| mkk(*d)).collect(),
                        4 => srcmap.values().map(|d| mkk(*d)).collect(),
                        5 => srcset.clone().into_iter().map(|i| mkk(items2[i as usize])).collect(),
                        _ => srcset.iter().map(|i| mkk(items2[*i as usize])).collect(),
                    }
                });
                match (rs, over_s) {
                    (Caught::Ok(m), None) => self.cmp_set::<F, N>("Set::from_iter(own iterator)", &format!("{} source={}", descr, kname), &m, &want_s),
                    (Caught::Panic(_), Some(_)) => {}
                    (Caught::Ok(_), Some(i)) => v("no-panic-on-overflow", format!("Set::from_iter [{} source={}] returned although item {} (in next() order) is a new element that does not fit", descr, kname, i)),
                    (Caught::Panic(msg), None) => v("panic-although-fits", format!("Set::from_iter [{} source={}] panicked ({}) although at most N distinct elements are supplied", descr, kname, msg)),
                    (Caught::Injected(..), _) => unreachable!(),
                }
                // Set::extend from the own iterator onto an empty set
                let mut ext: Set<F::K, N> = Set::new();
                let re = fault::catch(|| match kind {
                    0 => ext.extend(srcmap.clone().into_iter().map(|(_, d)| mkk(d))),
                    1 => ext.extend(srcmap.clone().into_values().map(mkk)),
                    2 => ext.extend(srcmap.clone().drain().map(|(_, d)| mkk(d))),
                    3 => ext.extend(srcmap.iter().map(|(_, d)| mkk(*d))),
                    4 => ext.extend(srcmap.values().map(|d| mkk(*d))),
                    5 => ext.extend(srcset.clone().into_iter().map(|i| mkk(items2[i as usize]))),
                    _ => ext.extend(srcset.iter().map(|i| mkk(items2[*i as usize]))),
                });
                match (&re, over_s) {
                    (Caught::Ok(()), None) | (Caught::Panic(_), Some(_)) => {}
                    (Caught::Ok(()), Some(i)) => v("no-panic-on-overflow", format!("Set::extend [{} source={}] returned although item {} does not fit", descr, kname, i)),
                    (Caught::Panic(msg), None) => v("panic-although-fits", format!("Set::extend [{} source={}] panicked ({}) although everything fits", descr, kname, msg)),
                    (Caught::Injected(..), _) => unreachable!(),
                }
                self.cmp_set::<F, N>("Set::extend(own iterator)", &format!("{} source={}", descr, kname), &ext, &want_s);
                drop(ext);
                if F::TRACKED && ledger::alive_count() != 0 {
                    v("leak", format!("bulk construction from {} [{}]: {} objects alive after everything was dropped", kname, descr, ledger::alive_count()));
                }
            }
        }
        if ledger::viol_total() > 0 {
            self.cx.rep.absorb_violations("C16", &|| vec![descr.clone()]);
        }
    }

    /// Extend<&T> (T: Copy) on Set<u32, N>
    pub fn seq_by_ref<const N: usize>(&mut self, classes: &[u32], start: &[u32]) {
        self.case_no += 1;
        ledger::set_ctx(self.case_no, 0, "Set::extend(&T)");
        self.cx.rep.evaluations += 1;
        let descr = format!("N={} fam=copy items={:?} start={:?}", N, classes, start);
        let st: Vec<(u32, u32, u32)> = start.iter().map(|c| (*c, 0, 0)).collect();
        let items: Vec<(u32, u32, u32)> = classes.iter().map(|c| (*c, 0, 0)).collect();
        let (want, overflow) = fold_model(&st, N, &items, true);
        self.cx.rep.hit(&format!("Set::extend(&T):{}", if overflow.is_some() { "overflows" } else { "fits" }));
        let mut s: Set<u32, N> = Set::new();
        for c in start {
            s.insert(*c);
        }
        let backing: Vec<u32> = classes.to_vec();
        let refs: Vec<&u32> = backing.iter().collect();
        let r = fault::catch(|| s.extend(rec(refs)));
        match (&r, overflow) {
            (Caught::Ok(()), None) | (Caught::Panic(_), Some(_)) => {}
            (Caught::Ok(()), Some(i)) => v("no-panic-on-overflow", format!("Set::extend(&T) [{}] returned although item {} does not fit", descr, i)),
            (Caught::Panic(msg), None) => v("panic-although-fits", format!("Set::extend(&T) [{}] panicked ({})", descr, msg)),
            (Caught::Injected(..), _) => unreachable!(),
        }
        let mut g: Vec<u32> = s.iter().copied().collect();
        let mut w: Vec<u32> = want.iter().map(|e| e.0).collect();
        g.sort_unstable();
        w.sort_unstable();
        if g != w || s.len() != w.len() {
            v("contents", format!("Set::extend(&T) [{}]: result {:?}; inserting one by one gives {:?}", descr, g, w));
        }
        check_pulls("Set::extend(&T)", &descr, items.len(), overflow);
        if ledger::viol_total() > 0 {
            self.cx.rep.absorb_violations("C16", &|| vec![descr.clone()]);
        }
    }

    /// zero-sized elements through the bulk entry points
    pub fn zst<const N: usize>(&mut self) {
        ledger::set_ctx(self.case_no, 0, "bulk(zero-sized)");
        let live0 = z_live();
        for all_equal in [true, false] {
            z_set_eq(all_equal);
            for k in 0..=(N + 2) {
                self.cx.rep.evaluations += 1;
                let want = if all_equal { k.min(1) } else { k };
                let must_panic = want > N;
                let items: Vec<Z> = (0..k).map(|_| Z::new()).collect();
                let pairs: Vec<(Z, ())> = (0..k).map(|_| (Z::new(), ())).collect();
                let rs = fault::catch(|| rec(items).collect::<Set<Z, N>>().len());
                let pulled_s = PULLS.with(|p| p.len());
                let rm = fault::catch(|| pairs.into_iter().collect::<Map<Z, (), N>>().len());
                let mut ext: Set<Z, N> = Set::new();
                let more: Vec<Z> = (0..k).map(|_| Z::new()).collect();
                let re = fault::catch(|| ext.extend(more));
                for (name, r) in [("Set::from_iter", rs), ("Map::from_iter", rm), ("Set::extend", match re { Caught::Ok(()) => Caught::Ok(ext.len()), Caught::Panic(m) => Caught::Panic(m), Caught::Injected(a, b) => Caught::Injected(a, b) })] {
                    match r {
                        Caught::Ok(len) => {
                            if must_panic || len != want {
                                v("zero-sized", format!("{} of {} zero-sized items (all equal = {}) into capacity {} gave {} entries; inserting one by one gives {}{}", name, k, all_equal, N, len, want.min(N), if must_panic { " and then panics" } else { "" }));
                            }
                        }
                        Caught::Panic(msg) => {
                            if !must_panic {
                                v("zero-sized", format!("{} of {} zero-sized items (all equal = {}) into capacity {} panicked: {}", name, k, all_equal, N, msg));
                            }
                        }
                        Caught::Injected(..) => {}
                    }
                }
                if !must_panic && pulled_s != k + 1 {
                    v("source-consumption", format!("Set::from_iter of {} zero-sized items pulled its source {} times", k, pulled_s));
                }
                drop(ext);
                self.cx.rep.hit("zst");
            }
        }
        z_set_eq(true);
        if z_live() != live0 {
            v("leak", format!("zero-sized bulk construction, N={}: {} keys alive after everything was dropped", N, z_live() - live0));
        }
        if ledger::viol_total() > 0 {
            self.cx.rep.absorb_violations("C16", &|| vec![format!("zero-sized bulk construction N={}", N)]);
        }
    }

    /// ALL sequences of length 0..=maxlen over `u` classes
    pub fn space<F: Fam, const N: usize>(&mut self, u: u32, maxlen: usize) {
        let (si, sn) = self.cx.shard;
        let starts: Vec<Vec<u32>> = vec![vec![], vec![2], vec![3, 1]];
        let mut no = 0u64;
        for len in 0..=maxlen {
            let total = (u as usize).pow(len as u32);
            for t in 0..total {
                no += 1;
                if let Some(h) = self.cx.only_hist {
                    if h != no {
                        continue;
                    }
                } else if no % sn != si {
                    continue;
                }
                if self.cx.rep.viol_total > 100 {
                    return;
                }
                let mut x = t;
                let classes: Vec<u32> = (0..len)
                    .map(|_| {
                        let c = 1 + (x % u as usize) as u32;
                        x /= u as usize;
                        c
                    })
                    .collect();
                for st in &starts {
                    if st.len() <= N {
                        self.seq::<F, N>(&classes, st);
                    }
                }
                if self.cx.rep.samples.len() < 3 && no % 577 == si {
                    self.cx.rep.sample(format!("sequence {} for N={}: item classes {:?} through Map/Set collect, From<[_;N]> (when the length is N), Set::extend onto {:?}", no, N, classes, starts));
                }
            }
        }
        self.cx.rep.hit(&format!("space:N={},u={},L<={}", N, u, maxlen));
    }

    pub fn space_by_ref<const N: usize>(&mut self, u: u32, maxlen: usize) {
        let (si, sn) = self.cx.shard;
        let mut no = 0u64;
        for len in 0..=maxlen {
            let total = (u as usize).pow(len as u32);
            for t in 0..total {
                no += 1;
                if no % sn != si {
                    continue;
                }
                let mut x = t;
                let classes: Vec<u32> = (0..len)
                    .map(|_| {
                        let c = 1 + (x % u as usize) as u32;
                        x /= u as usize;
                        c
                    })
                    .collect();
                self.seq_by_ref::<N>(&classes, &[]);
                if N >= 1 {
                    self.seq_by_ref::<N>(&classes, &[2]);
                }
            }
        }
    }

    pub fn random<F: Fam, const N: usize>(&mut self, n: u64) {
        for i in 0..n {
            let mut rng: Rng = self.cx.hist_rng(3_000_000 + i * self.cx.shard.1 + self.cx.shard.0 + N as u64 * 15_485_863);
            let u = N as u32 + 1 + rng.below(3) as u32;
            let len = rng.usize_below(3 * N + 3);
            let classes: Vec<u32> = (0..len).map(|_| 1 + rng.below(u64::from(u)) as u32).collect();
            let sl = rng.usize_below(N + 1);
            let mut cl: Vec<u32> = (1..=u).collect();
            rng.shuffle(&mut cl);
            let start: Vec<u32> = cl[..sl.min(cl.len())].to_vec();
            self.seq::<F, N>(&classes, &[]);
            self.seq::<F, N>(&classes, &start);
            self.cx.rep.hit("random-sequence");
        }
    }
}
