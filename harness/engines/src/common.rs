//! Worker scaffolding shared by the engines: argument handling, history scheduling,
//! per-history PRNG streams, violation plumbing.

use support::args::Args;
use support::ledger;
use support::report::Report;
use support::rng::{hash_str, Rng};

pub struct Ctx {
    pub args: Args,
    pub prop: String,
    pub engine: String,
    pub seed: u64,
    pub shard: (u64, u64),
    /// logical budget: number of monitored steps / cases for this worker
    pub budget: u64,
    pub only_hist: Option<u64>,
    pub rep: Report,
    pub thorough: bool,
}

impl Ctx {
    pub fn from_args(engine: &str) -> Ctx {
        let args = Args::parse();
        support::fault::install_hook();
        let prop = args.str("prop", "C00");
        let seed = args.u64("seed", 1);
        let shard = args.shard();
        let budget = args.u64("budget", 10_000);
        let only_hist = args.opt_u64("only-hist");
        let thorough = args.str("tier", "quick") == "thorough";
        let rep = Report::new(&prop, engine, seed, shard);
        Ctx {
            args,
            prop,
            engine: engine.to_string(),
            seed,
            shard,
            budget,
            only_hist,
            rep,
            thorough,
        }
    }
    /// PRNG stream of history `hist` (independent of sharding, so a history can be replayed
    /// alone with `--only-hist`).
    pub fn hist_rng(&self, hist: u64) -> Rng {
        Rng::keyed(&[self.seed, hash_str(&self.prop), hash_str(&self.engine), hist])
    }
    /// Iterate history numbers of this shard until the budget is used up.
    pub fn run_histories(&mut self, mut f: impl FnMut(&mut Ctx, u64)) {
        if let Some(h) = self.only_hist {
            f(self, h);
            return;
        }
        let mut h = self.shard.0;
        while self.rep.evaluations < self.budget {
            let before = self.rep.evaluations;
            f(self, h);
            self.rep.histories += 1;
            if self.rep.evaluations == before {
                // a history that evaluates nothing must still make progress
                self.rep.evaluations += 1;
            }
            h += self.shard.1;
            if self.rep.viol_total > 200 {
                self.rep.notes.push("stopped early: more than 200 violations".into());
                break;
            }
        }
    }
    pub fn finish(self) -> ! {
        self.rep.emit();
        std::process::exit(0);
    }
}

/// Per-history bookkeeping shared by the history engines.
pub struct Hist {
    pub hist: u64,
    pub step: u32,
    pub ops: Vec<String>,
    pub failed: bool,
    /// objects legitimately leaked by the harness (mem::forget of a drain / iterator)
    pub leaked_ok: usize,
    pub next_tag: u32,
    pub next_payload: u32,
    /// C18 runs: what is observed in a step that called an unsafe fast path refutes C18
    pub retag_unchecked: bool,
    /// (from property, operation, to property): a finding of `from` raised during `operation` is ALSO a
    /// finding of `to` (e.g. in a C01 run what `drain()` hands back is a return value C01 speaks about)
    pub dual: Vec<(&'static str, &'static str, &'static str)>,
    /// self-counting element families: live objects when the history started
    pub live_base: i64,
    /// a user panic was injected in this history: leaks are tolerated from then on (C04), double drops are not
    pub fault_leak: bool,
    /// tags wrap around after this many (0 = never): element families whose key has only a few bits for a tag
    pub tag_mod: u32,
    /// the property this run decides (empty = every finding ends the history)
    pub own_prop: String,
    /// steps the history may still run after the first finding that belongs to ANOTHER behavioural property
    /// (-1: no such finding yet).  The same defect may show the symptom this check is about a few steps later.
    pub soft_left: i32,
    /// findings recorded inside that window (they do not end the history)
    pub soft_total: u64,
}
/// Properties whose findings never keep a history going: memory / ownership findings mean the containers
/// can no longer be touched safely.
fn hard_prop(p: &str) -> bool {
    matches!(p, "MEM" | "C02" | "C03" | "C04" | "C13" | "C17" | "C18")
}
impl Hist {
    pub fn new(hist: u64) -> Self {
        Hist {
            hist,
            step: 0,
            ops: Vec::new(),
            failed: false,
            leaked_ok: 0,
            next_tag: 1,
            next_payload: 100,
            retag_unchecked: false,
            dual: Vec::new(),
            live_base: 0,
            fault_leak: false,
            tag_mod: 0,
            own_prop: String::new(),
            soft_left: -1,
            soft_total: 0,
        }
    }
    pub fn begin_step(&mut self, op: &'static str, descr: String) {
        self.step += 1;
        ledger::set_ctx(self.hist, self.step, op);
        self.ops.push(descr);
    }
    pub fn tag(&mut self) -> u32 {
        if self.tag_mod > 0 {
            self.next_tag = self.next_tag % self.tag_mod + 1;
        } else {
            self.next_tag += 1;
        }
        self.next_tag
    }
    /// after a step: true when the history has to end (a finding of this run's own property, a memory
    /// finding, anything the ledger raised by itself, or the window after a foreign finding is used up)
    pub fn must_stop(&mut self) -> bool {
        if self.failed || ledger::viol_total() > self.soft_total {
            return true;
        }
        if self.soft_left > 0 {
            self.soft_left -= 1;
        }
        self.soft_left == 0
    }
    pub fn payload(&mut self) -> u32 {
        self.next_payload += 1;
        self.next_payload
    }
    /// record a violation of property `prop`
    pub fn viol(&mut self, prop: &str, what: &str, msg: String) {
        let (_, _, op) = ledger::ctx();
        let prop = if self.retag_unchecked && op == "insert_unchecked" && prop != "MEM" { "C18" } else { prop };
        for (from, o, to) in &self.dual {
            if *from == prop && *o == op {
                ledger::violation(to, format!("{}:{}@{}", from, what, op), msg.clone());
            }
        }
        if self.own_prop == "C03" && what == "no-panic-on-full" && prop != "C03" {
            // in a C03 run of the history engines: a new key added to a full container without a panic
            ledger::violation("C03", format!("{}@{}", what, op), msg.clone());
            self.failed = true;
        }
        let mut dual_own = false;
        for (from, o, to) in &self.dual {
            if *from == prop && *o == op && *to == self.own_prop {
                dual_own = true;
            }
        }
        if !self.own_prop.is_empty() && prop != self.own_prop && !dual_own && !hard_prop(prop) && !self.failed && self.soft_left != 0 {
            // a finding that belongs to another behavioural property: note it (at most three) and let the history
            // run a few more steps
            if self.soft_left < 0 {
                self.soft_left = 10;
            }
            if self.soft_total < 3 {
                let before = ledger::viol_total();
                ledger::violation(prop, format!("{}@{}", what, op), msg);
                self.soft_total += ledger::viol_total() - before;
            }
            return;
        }
        ledger::violation(prop, format!("{}@{}", what, op), msg);
        self.failed = true;
    }
}

/// `dispatch_n!(n, [0, 1, 2], func, Family, (args…))` → `func::<Family, N>(args…)` for the runtime n.
#[macro_export]
macro_rules! dispatch_n {
    ($n:expr, [$($N:literal),*], $f:ident, $F:ty, $args:tt) => {
        match $n { $( $N => $crate::call_n!($f, $F, $N, $args), )* other => panic!("capacity {} not monomorphised for this family", other) }
    };
}
#[macro_export]
macro_rules! call_n {
    ($f:ident, $F:ty, $N:literal, ($($a:expr),*)) => { $f::<$F, $N>($($a),*) };
}

/// Property that ledger-raised memory / ownership violations are attributed to in a run that
/// decides `prop`: the property itself when its statement is about memory, otherwise C02.
pub fn mem_prop(prop: &str) -> &'static str {
    match prop {
        "C03" => "C03",
        "C04" => "C04",
        "C10" => "C10",
        "C13" => "C13",
        "C17" => "C17",
        "C18" => "C18",
        "C19" => "C19",
        _ => "C02",
    }
}

/// A source iterator whose `size_hint` has one of the shapes real sources have - and, for the safety
/// checks, shapes that LIE: "`size_hint()` … must not be trusted to e.g. omit bounds checks in unsafe code.
/// An incorrect implementation of `size_hint()` should not lead to memory safety violations" (std docs).
pub struct Hinted<I> {
    pub it: I,
    pub mode: u8,
}
pub const HINT_MODES: [&str; 7] = ["exact", "(0,None)", "(lo,None)", "(0,Some(MAX))", "lies:(0,Some(0))", "lies:(0,Some(1))", "lies:(MAX,None)"];
impl<I: Iterator> Iterator for Hinted<I> {
    type Item = I::Item;
    fn next(&mut self) -> Option<I::Item> {
        self.it.next()
    }
    fn size_hint(&self) -> (usize, Option<usize>) {
        let (lo, hi) = self.it.size_hint();
        match self.mode {
            0 => (lo, hi),
            1 => (0, None),
            2 => (lo, None),
            3 => (0, Some(usize::MAX)),
            4 => (0, Some(0)),
            5 => (0, Some(1)),
            _ => (usize::MAX, None),
        }
    }
}

/// Ways of consuming an iterator other than a plain `next()` loop: std adaptor and consumer
/// methods that an iterator type may override (nth, last, count, fold, ...) or that are built on
/// such overrides (skip -> nth, step_by -> nth, for_each -> fold, ...).
pub const STYLES: [&str; 29] = ["next", "nth", "skip", "step_by(2)", "last", "fold", "count", "for_each", "take", "by_ref.nth+rest", "step_by(3)", "find", "max_by_key", "reduce", "skip_while+take_while", "by_ref.any+rest", "by_ref.all+rest", "by_ref.position+rest", "by_ref.find_map+rest",
    "min_by_key", "max_by", "partition", "collect", "enumerate.nth", "zip", "peekable", "by_ref.take+rest", "by_ref.step_by(2).take+rest", "by_ref.try_for_each+rest"];

/// Consume `it` in the given style.  Returns the items it yielded, the positions (in the
/// iterator's own `next()` order) those items must be, and the value of `count()` if that was
/// the style.  `j` is the style's parameter (how many to skip / which to take).
/// `drive` on an iterator that has already been stepped `pre` times with `next()` (possibly beyond its
/// end): adaptor and consumer methods must behave on a partially consumed or exhausted iterator exactly
/// as on a fresh one over the remaining items.  Items and positions of the pre-consumed head come first.
pub fn drive_pre<I: Iterator>(mut it: I, pre: usize, style: usize, j: usize, len0: usize) -> (Vec<I::Item>, Vec<usize>, Option<usize>) {
    let mut head: Vec<I::Item> = Vec::new();
    for _ in 0..pre {
        if let Some(x) = it.next() {
            head.push(x);
        }
    }
    let p = pre.min(len0);
    let yielded_head = head.len();
    let (items, pos, c) = drive(it, style, j, len0 - p);
    head.extend(items);
    let mut positions: Vec<usize> = (0..p).collect();
    positions.extend(pos.into_iter().map(|x| x + p));
    (head, positions, c.map(|c| c + yielded_head))
}

pub fn drive<I: Iterator>(mut it: I, style: usize, j: usize, len0: usize) -> (Vec<I::Item>, Vec<usize>, Option<usize>) {
    let all: Vec<usize> = (0..len0).collect();
    match style {
        1 => {
            let x = it.nth(j);
            let pos = if j < len0 { vec![j] } else { vec![] };
            (x.into_iter().collect(), pos, None)
        }
        2 => (it.skip(j).collect(), all.into_iter().skip(j).collect(), None),
        3 => (it.step_by(2).collect(), all.into_iter().step_by(2).collect(), None),
        10 => (it.step_by(3).collect(), all.into_iter().step_by(3).collect(), None),
        4 => {
            let x = it.last();
            (x.into_iter().collect(), if len0 > 0 { vec![len0 - 1] } else { vec![] }, None)
        }
        5 => (
            it.fold(Vec::new(), |mut acc, x| {
                acc.push(x);
                acc
            }),
            all,
            None,
        ),
        6 => {
            let c = it.count();
            (Vec::new(), Vec::new(), Some(c))
        }
        7 => {
            let mut v = Vec::new();
            it.for_each(|x| v.push(x));
            (v, all, None)
        }
        8 => (it.take(j).collect(), all.into_iter().take(j).collect(), None),
        9 => {
            // nth(j) and then everything that is left: positions j, j+1, .. len0-1 (nothing if j overshoots:
            // an overshooting nth must have consumed the whole iterator)
            let mut v: Vec<I::Item> = Vec::new();
            if let Some(x) = it.by_ref().nth(j) {
                v.push(x);
            }
            for x in it {
                v.push(x);
            }
            (v, (j..len0).collect(), None)
        }
        11 => {
            // find the j-th item (a searching consumer: try_fold-based in std)
            let mut c = 0usize;
            let x = it.find(|_| {
                c += 1;
                c - 1 == j
            });
            (x.into_iter().collect(), if j < len0 { vec![j] } else { vec![] }, None)
        }
        12 => {
            // the item with the largest running index is the last one
            let mut c = 0usize;
            let x = it.max_by_key(|_| {
                c += 1;
                c
            });
            (x.into_iter().collect(), if len0 > 0 { vec![len0 - 1] } else { vec![] }, None)
        }
        13 => {
            let x = it.reduce(|a, _| a);
            (x.into_iter().collect(), if len0 > 0 { vec![0] } else { vec![] }, None)
        }
        14 => {
            let mut c = 0usize;
            let mut d = 0usize;
            let v: Vec<I::Item> = it
                .skip_while(|_| {
                    c += 1;
                    c <= j
                })
                .take_while(|_| {
                    d += 1;
                    d <= 2
                })
                .collect();
            (v, all.into_iter().skip(j).take(2).collect(), None)
        }
        15..=18 => {
            // a short-circuiting consumer stops right AFTER the j-th item; everything behind it is still to come
            let mut c = 0usize;
            match style {
                15 => {
                    let _ = it.by_ref().any(|_| {
                        c += 1;
                        c - 1 == j
                    });
                }
                16 => {
                    let _ = it.by_ref().all(|_| {
                        c += 1;
                        c - 1 != j
                    });
                }
                17 => {
                    let _ = it.by_ref().position(|_| {
                        c += 1;
                        c - 1 == j
                    });
                }
                _ => {
                    let _ = it.by_ref().find_map(|_| {
                        c += 1;
                        if c - 1 == j {
                            Some(())
                        } else {
                            None
                        }
                    });
                }
            }
            let mut v = Vec::new();
            for x in it {
                v.push(x);
            }
            (v, ((j + 1).min(len0)..len0).collect(), None)
        }
        19 => {
            // the first of the smallest keys wins: the first item
            let mut c = 0usize;
            let x = it.min_by_key(|_| {
                c += 1;
                c
            });
            (x.into_iter().collect(), if len0 > 0 { vec![0] } else { vec![] }, None)
        }
        20 => {
            // "always less": the right operand wins every comparison, so the last item is returned
            let x = it.max_by(|_, _| std::cmp::Ordering::Less);
            (x.into_iter().collect(), if len0 > 0 { vec![len0 - 1] } else { vec![] }, None)
        }
        21 => {
            let mut c = 0usize;
            let (a, b): (Vec<I::Item>, Vec<I::Item>) = it.partition(|_| {
                c += 1;
                c % 2 == 1
            });
            let mut v = a;
            v.extend(b);
            let mut pos: Vec<usize> = (0..len0).step_by(2).collect();
            pos.extend((1..len0).step_by(2));
            (v, pos, None)
        }
        22 => (it.collect(), all, None),
        23 => {
            let x = it.enumerate().nth(j);
            // the index Enumerate attaches is the number of items pulled before
            let ok = x.as_ref().map_or(true, |(i, _)| *i == j);
            let item: Vec<I::Item> = x.map(|(_, x)| x).into_iter().collect();
            (item, if j < len0 && ok { vec![j] } else if j < len0 { vec![usize::MAX] } else { vec![] }, None)
        }
        24 => (it.zip(0usize..).map(|(x, _)| x).collect(), all, None),
        25 => {
            let mut p = it.peekable();
            let _ = p.peek();
            let _ = p.peek();
            (p.collect(), all, None)
        }
        26 => {
            let mut v: Vec<I::Item> = it.by_ref().take(j).collect();
            for x in it {
                v.push(x);
            }
            (v, all, None)
        }
        27 => {
            // StepBy hands out the first item at once and then every second one; after k items it has pulled
            // 2k-1 items from the underlying iterator, which continues behind them
            let k = j.min(3);
            let mut v: Vec<I::Item> = it.by_ref().step_by(2).take(k).collect();
            let got = v.len();
            let mut pos: Vec<usize> = (0..len0).step_by(2).take(k).collect();
            for x in it {
                v.push(x);
            }
            if k > 0 && got == k {
                pos.extend((2 * k - 1).min(len0)..len0);
            } else if k == 0 {
                pos = all;
            }
            (v, pos, None)
        }
        28 => {
            let mut v: Vec<I::Item> = Vec::new();
            let mut c = 0usize;
            let _ = it.by_ref().try_for_each(|x| {
                v.push(x);
                c += 1;
                if c - 1 == j {
                    Err(())
                } else {
                    Ok(())
                }
            });
            for x in it {
                v.push(x);
            }
            (v, all, None)
        }
        _ => {
            let mut v = Vec::new();
            for x in it {
                v.push(x);
            }
            (v, all, None)
        }
    }
}

/// A sink that accepts `left` bytes and then fails: formatting into it must return `Err` (not panic) and must
/// leave nothing behind that a later rendering could pick up.
pub struct Bounded {
    pub left: usize,
}
impl std::fmt::Write for Bounded {
    fn write_str(&mut self, s: &str) -> std::fmt::Result {
        if s.len() > self.left {
            self.left = 0;
            return Err(std::fmt::Error);
        }
        self.left -= s.len();
        Ok(())
    }
}
