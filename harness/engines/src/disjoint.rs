//! C13 engine (+ the get_disjoint_unchecked_mut half of C18): every key tuple of length
//! 0..=4 over present and absent keys, with and without repeats, in every order, on every
//! slot layout of a small universe.  Oracles: per-position agreement with `get_mut` (value
//! identity AND address), pairwise-distinct addresses inside the map, write visibility,
//! panic exactly for two equal present keys.  Under Miri the Stacked-Borrows checker watches the
//! `&mut` references being used together.

use crate::common::Ctx;
use crate::panicsafe::layouts;
use micromap::Map;
use support::elems::{z_set_eq, Class, TK, TV, Z};
use support::fault::{self, Caught};
use support::frame::{addr_of, Frame};
use support::ledger;
use support::rng::{Fp, Rng};

pub struct Dj<'a> {
    pub cx: &'a mut Ctx,
    pub case_no: u64,
    pub seq: u32,
}

fn v(prop: &str, what: &str, msg: String) {
    let (_, _, op) = ledger::ctx();
    ledger::violation(prop, format!("{}@{}", what, op), msg);
}

#[derive(Clone, Copy, PartialEq, Eq)]
pub enum Mode {
    /// safe API, keys given in their borrowed form
    SafeQ,
    /// safe API, keys given as keys
    SafeK,
    /// unsafe API inside its contract (pairwise different keys only)
    Unchecked,
}

/// The same question with keys WITHOUT drop glue whose `==` is not bit equality (one-byte `Tiny`, four-byte
/// `Word`, three-byte `Odd3`, thin references compared through the pointee): the requested keys are equal to
/// the stored ones but differ from them in their bits (another tag / another address).  Pairs and triples of
/// pairwise different classes; every position must be what `get_mut` gives (presence, address, value).
fn plain_case<K: Eq + 'static, const N: usize>(prop: &str, tname: &str, layout: &[u32], universe: &[u32], mk: &dyn Fn(u32, u32) -> K, unchecked: bool) -> u64 {
    let mut m: Map<K, u32, N> = Map::new();
    for c in layout {
        m.insert(mk(*c, 1), 1000 + *c);
    }
    let mut n = 0u64;
    let want_of = |m: &mut Map<K, u32, N>, c: u32| m.get_mut::<K>(&mk(c, 2)).map(|x| (x as *mut u32 as usize, *x));
    for a in universe {
        for b in universe {
            if a == b {
                continue;
            }
            let want = [want_of(&mut m, *a), want_of(&mut m, *b)];
            let (ka, kb) = (mk(*a, 2), mk(*b, 2));
            let got: [Option<(usize, u32)>; 2] = {
                let r = if unchecked { unsafe { m.get_disjoint_unchecked_mut::<K, 2>([&ka, &kb]) } } else { m.get_disjoint_mut::<K, 2>([&ka, &kb]) };
                [r[0].as_ref().map(|x| (*x as *const u32 as usize, **x)), r[1].as_ref().map(|x| (*x as *const u32 as usize, **x))]
            };
            n += 1;
            if got != want {
                v(prop, "position-vs-get_mut(plain keys)", format!("Map<{},u32,{}> state={:?}: keys of classes [{}, {}] (equal to the stored keys, other bits) give (address, value) {:x?}; get_mut gives {:x?}", tname, N, layout, a, b, got, want));
            }
            for c in universe {
                if c == a || c == b {
                    continue;
                }
                let want3 = [want[0], want[1], want_of(&mut m, *c)];
                let kc = mk(*c, 2);
                let got3: [Option<(usize, u32)>; 3] = {
                    let r = if unchecked { unsafe { m.get_disjoint_unchecked_mut::<K, 3>([&ka, &kb, &kc]) } } else { m.get_disjoint_mut::<K, 3>([&ka, &kb, &kc]) };
                    [r[0].as_ref().map(|x| (*x as *const u32 as usize, **x)), r[1].as_ref().map(|x| (*x as *const u32 as usize, **x)), r[2].as_ref().map(|x| (*x as *const u32 as usize, **x))]
                };
                n += 1;
                if got3 != want3 {
                    v(prop, "position-vs-get_mut(plain keys)", format!("Map<{},u32,{}> state={:?}: keys of classes [{}, {}, {}] give {:x?}; get_mut gives {:x?}", tname, N, layout, a, b, c, got3, want3));
                }
            }
        }
    }
    n
}
/// Keys with an UNSIZED borrowed form whose `==` equates values of different byte length: `PathBuf` looked up
/// by `&Path` ("k3/" == "k3", "k3//x" == "k3/x").  Stored keys are written one way, requested keys the other.
fn path_case<const N: usize>(prop: &str, layout: &[u32], universe: &[u32], unchecked: bool) -> u64 {
    use std::path::{Path, PathBuf};
    let stored = |c: u32| PathBuf::from(format!("dir{}/x", c));
    let asked = |c: u32| format!("dir{}//x/", c);
    let mut m: Map<PathBuf, u32, N> = Map::new();
    for c in layout {
        m.insert(stored(*c), 1000 + *c);
    }
    let mut n = 0u64;
    for a in universe {
        for b in universe {
            if a == b {
                continue;
            }
            let (sa, sb) = (asked(*a), asked(*b));
            let (pa, pb) = (Path::new(&sa), Path::new(&sb));
            let want = [m.get_mut(pa).map(|x| (x as *mut u32 as usize, *x)), m.get_mut(pb).map(|x| (x as *mut u32 as usize, *x))];
            let got: [Option<(usize, u32)>; 2] = {
                let r = if unchecked { unsafe { m.get_disjoint_unchecked_mut([pa, pb]) } } else { m.get_disjoint_mut([pa, pb]) };
                [r[0].as_ref().map(|x| (*x as *const u32 as usize, **x)), r[1].as_ref().map(|x| (*x as *const u32 as usize, **x))]
            };
            n += 1;
            if got != want {
                v(prop, "position-vs-get_mut(unsized borrowed form)", format!("Map<PathBuf,u32,{}> state={:?}: paths {:?} and {:?} (equal to stored keys, written differently) give {:x?}; get_mut gives {:x?}", N, layout, sa, sb, got, want));
            }
        }
    }
    n
}
static PLAIN_CELLS: [[u32; 16]; 3] = {
    let mut c = [[0u32; 16]; 3];
    let mut i = 0;
    while i < 16 {
        c[0][i] = i as u32;
        c[1][i] = i as u32;
        c[2][i] = i as u32;
        i += 1;
    }
    c
};

impl<'a> Dj<'a> {
    fn one<const N: usize, const J: usize>(&mut self, fr: &mut Frame<Map<TK, TV, N>>, layout: &[u32], tuple: [u32; J], mode: Mode) {
        let name: &'static str = match mode {
            Mode::SafeQ => "get_disjoint_mut(q)",
            Mode::SafeK => "get_disjoint_mut(k)",
            Mode::Unchecked => "get_disjoint_unchecked_mut",
        };
        let prop = if mode == Mode::Unchecked { "C18" } else { "C13" };
        ledger::set_ctx(self.case_no, J as u32, name);
        let range = fr.range();
        // what get_mut says, per position
        let mut want: [Option<(u64, usize, u32)>; J] = [None; J];
        for (i, c) in tuple.iter().enumerate() {
            want[i] = fr.get_mut().get_mut(&Class(*c)).map(|x| (x.id, addr_of(x), x.payload));
        }
        let mut dup_present = false;
        let mut dup_absent = false;
        for i in 0..J {
            for j in i + 1..J {
                if tuple[i] == tuple[j] {
                    if want[i].is_some() {
                        dup_present = true;
                    } else {
                        dup_absent = true;
                    }
                }
            }
        }
        if mode == Mode::Unchecked && (dup_present || dup_absent) {
            return; // outside the contract: never called
        }
        self.cx.rep.evaluations += 1;
        let mut fp = Fp::new(0xD15 + N as u64);
        for c in layout {
            fp.add(u64::from(*c));
        }
        fp.add(0xFFFF + mode as u64);
        for c in &tuple {
            fp.add(u64::from(*c));
        }
        if J > 0 {
            self.cx.rep.fps.add(fp.get());
        }
        self.seq = self.seq.wrapping_add(1);
        let base = 10_000 + (self.seq % 50_000) * 10;
        let pre: Vec<(u32, u32)> = fr.get().iter().map(|(k, x)| (k.class, x.payload)).collect();
        let m = fr.get_mut();
        // result per position: (vid, addr, payload seen) and a write through every reference
        let r: Caught<[Option<(u64, usize, u32)>; J]> = fault::catch(|| {
            let qs: [Class; J] = tuple.map(Class);
            let ks: [TK; J] = core::array::from_fn(|i| TK::new(tuple[i], 900 + i as u32));
            let got: [Option<&mut TV>; J] = match mode {
                Mode::SafeQ => m.get_disjoint_mut::<Class, J>(qs.each_ref()),
                Mode::SafeK => m.get_disjoint_mut::<TK, J>(ks.each_ref()),
                // SAFETY: the keys are pairwise different (checked above)
                Mode::Unchecked => unsafe { m.get_disjoint_unchecked_mut::<Class, J>(qs.each_ref()) },
            };
            let mut out: [Option<(u64, usize, u32)>; J] = [None; J];
            // use all references together: first read all, then write all (aliasing would be
            // visible to Miri here, and to the write-visibility check below)
            let mut refs: Vec<(usize, &mut TV)> = Vec::new();
            for (i, g) in got.into_iter().enumerate() {
                if let Some(x) = g {
                    x.check("get_disjoint_mut item");
                    out[i] = Some((x.id, addr_of(&*x), x.payload));
                    refs.push((i, x));
                }
            }
            for (i, x) in refs.iter_mut() {
                x.payload = base + *i as u32;
            }
            out
        });
        let descr = || format!("Map<_,_,{}> state={:?} keys={:?} via {}", N, layout, tuple, name);
        match r {
            Caught::Injected(..) => unreachable!(),
            Caught::Panic(msg) => {
                self.cx.rep.hit(&format!("{}:J={}:panic", name, J));
                if !dup_present && !dup_absent {
                    v(prop, "panic-on-distinct-keys", format!("{} panicked ({}) although the keys are pairwise different", descr(), msg));
                }
            }
            Caught::Ok(got) => {
                self.cx.rep.hit(&format!("{}:J={}:{}", name, J, if dup_absent { "equal-absent-keys" } else { "ok" }));
                if dup_present {
                    v(prop, "no-panic-on-equal-present-keys", format!("{} returned although two requested keys are equal and present", descr()));
                }
                for i in 0..J {
                    match (&want[i], &got[i]) {
                        (None, None) => {}
                        (Some(w), Some(g)) => {
                            if w.0 != g.0 || w.1 != g.1 {
                                v(prop, "position-vs-get_mut", format!("{} position {}: object {:#x} at {:#x}, but get_mut gives object {:#x} at {:#x}", descr(), i, g.0, g.1, w.0, w.1));
                            }
                            if !(g.1 >= range.0 && g.1 + std::mem::size_of::<TV>() <= range.1) {
                                v("C06", "ref-outside", format!("{} position {}: reference {:#x} outside the map's bytes", descr(), i, g.1));
                            }
                        }
                        (w, g) => v(prop, "position-vs-get_mut", format!("{} position {}: Some={} but get_mut gives Some={}", descr(), i, g.is_some(), w.is_some())),
                    }
                    for j in i + 1..J {
                        if let (Some(a), Some(b)) = (&got[i], &got[j]) {
                            if a.1 == b.1 {
                                v(prop, "aliasing", format!("{}: positions {} and {} are the same address {:#x}", descr(), i, j, a.1));
                            }
                        }
                    }
                }
                // writes are visible through get, and only there
                if !dup_present {
                    let m = fr.get();
                    for (k, val) in m.iter() {
                        match (0..J).find(|i| tuple[*i] == k.class) {
                            Some(i) => {
                                if val.payload != base + i as u32 {
                                    v(prop, "write-not-visible", format!("{}: value of class {} is {} after writing {} through position {}", descr(), k.class, val.payload, base + i as u32, i));
                                }
                            }
                            None => {
                                let before = pre.iter().find(|x| x.0 == k.class).map(|x| x.1);
                                if before != Some(val.payload) {
                                    v(prop, "write-elsewhere", format!("{}: value of un-requested class {} changed from {:?} to {}", descr(), k.class, before, val.payload));
                                }
                            }
                        }
                    }
                }
            }
        }
        if !fr.canaries_ok() {
            v(prop, "canary", format!("{}: memory outside the map was overwritten", descr()));
        }
        if fr.get().len() != layout.len() {
            v(prop, "len-changed", format!("{}: len() changed", descr()));
        }
    }

    fn tuples<const N: usize, const J: usize>(&mut self, fr: &mut Frame<Map<TK, TV, N>>, layout: &[u32], keys: &[u32], modes: &[Mode]) {
        let n = keys.len();
        let total = n.pow(J as u32);
        for t in 0..total {
            let mut x = t;
            let tuple: [u32; J] = core::array::from_fn(|_| {
                let k = keys[x % n];
                x /= n;
                k
            });
            for mode in modes {
                self.one::<N, J>(fr, layout, tuple, *mode);
            }
        }
    }

    pub fn space<const N: usize>(&mut self, u: u32, maxj: usize, modes: &[Mode]) {
        let (si, sn) = self.cx.shard;
        let keys: Vec<u32> = (1..=u).chain(std::iter::once(9)).collect();
        for layout in layouts(u, N) {
            self.case_no += 1;
            if let Some(h) = self.cx.only_hist {
                if h != self.case_no {
                    continue;
                }
            } else if self.case_no % sn != si {
                continue;
            }
            if self.cx.rep.viol_total > 100 {
                return;
            }
            ledger::reset();
            let mut m: Map<TK, TV, N> = Map::new();
            for (i, c) in layout.iter().enumerate() {
                m.insert(TK::new(*c, i as u32), TV::new(100 + *c));
            }
            let mut fr = Frame::boxed(m);
            self.tuples::<N, 0>(&mut fr, &layout, &keys, modes);
            self.tuples::<N, 1>(&mut fr, &layout, &keys, modes);
            self.tuples::<N, 2>(&mut fr, &layout, &keys, modes);
            if maxj >= 3 {
                self.tuples::<N, 3>(&mut fr, &layout, &keys, modes);
            }
            if maxj >= 4 {
                self.tuples::<N, 4>(&mut fr, &layout, &keys, modes);
            }
            drop(fr);
            if ledger::alive_count() != 0 {
                v("C02", "leak", format!("{} objects alive after the map was dropped (layout {:?})", ledger::alive_count(), layout));
            }
            if self.case_no % 3 == 0 {
                use support::elems::{Odd3, Tiny, Word};
                let unchecked = modes.contains(&Mode::Unchecked);
                let prop = if unchecked { "C18" } else { "C13" };
                ledger::set_ctx(self.case_no, 0, if unchecked { "get_disjoint_unchecked_mut(plain keys)" } else { "get_disjoint_mut(plain keys)" });
                let mut n = 0;
                n += plain_case::<Tiny, N>(prop, "Tiny(1 byte)", &layout, &keys, &|c, t| Tiny::new(c, t), unchecked);
                n += plain_case::<Word, N>(prop, "Word(4 bytes)", &layout, &keys, &|c, t| Word::new(c, t), unchecked);
                n += plain_case::<Odd3, N>(prop, "Odd3(3 bytes)", &layout, &keys, &|c, t| Odd3::new(c, t), unchecked);
                n += plain_case::<&'static u32, N>(prop, "&u32", &layout, &keys, &|c, t| &PLAIN_CELLS[t as usize % 3][c as usize], unchecked);
                n += path_case::<N>(prop, &layout, &keys, unchecked);
                self.cx.rep.evaluations += n;
                self.cx.rep.hit("plain-keys");
            }
            if ledger::viol_total() > 0 {
                let d = format!("layout case {}: Map<_,_,{}> state={:?}, all key tuples of length 0..={} over {:?}", self.case_no, N, layout, maxj, keys);
                self.cx.rep.absorb_violations(&self.cx.prop.clone(), &|| vec![d.clone()]);
            }
            if self.cx.rep.samples.len() < 3 {
                let s = format!("layout case {}: Map<_,_,{}> state={:?}: every tuple of length 0..={} over keys {:?}, modes {}", self.case_no, N, layout, maxj, keys, modes.len());
                self.cx.rep.sample(s);
            }
        }
        self.cx.rep.hit(&format!("space:N={},u={},J<={}", N, u, maxj));
    }

    /// zero-sized key and value
    pub fn zst<const N: usize>(&mut self) {
        ledger::set_ctx(self.case_no, 0, "get_disjoint_mut(zero-sized)");
        let prop = self.cx.prop.clone();
        for all_equal in [true, false] {
            z_set_eq(all_equal);
            for fill in 0..=N {
                if all_equal && fill > 1 {
                    continue;
                }
                self.cx.rep.evaluations += 1;
                let mut m: Map<Z, (), N> = Map::new();
                for _ in 0..fill {
                    m.insert(Z::new(), ());
                }
                let (z1, z2, z3) = (Z::new(), Z::new(), Z::new());
                let present = all_equal && fill == 1;
                let r0 = fault::catch(|| m.get_disjoint_mut::<Z, 0>([]).len());
                let r1 = fault::catch(|| m.get_disjoint_mut([&z1]).map(|x| x.is_some()));
                let r2 = fault::catch(|| m.get_disjoint_mut([&z1, &z2]).map(|x| x.is_some()));
                let r3 = fault::catch(|| m.get_disjoint_mut([&z1, &z2, &z3]).map(|x| x.is_some()));
                let d = format!("Map<Z,(),{}> keys-all-equal={} holding {}", N, all_equal, fill);
                if !matches!(r0, Caught::Ok(0)) {
                    v(&prop, "zero-sized", format!("{}: get_disjoint_mut([]) did not return an empty array", d));
                }
                if !matches!(r1, Caught::Ok([p]) if p == present) {
                    v(&prop, "zero-sized", format!("{}: get_disjoint_mut([k]) is not [{}]", d, if present { "Some" } else { "None" }));
                }
                if all_equal {
                    // the requested keys are equal: present => must panic; absent => either outcome
                    if present && !r2.panicked() {
                        v(&prop, "no-panic-on-equal-present-keys", format!("{}: two equal present keys returned", d));
                    }
                } else {
                    // pairwise different, all absent
                    if !matches!(r2, Caught::Ok([false, false])) || !matches!(r3, Caught::Ok([false, false, false])) {
                        v(&prop, "zero-sized", format!("{}: pairwise different absent keys did not give all None", d));
                    }
                }
                if m.len() != fill {
                    v(&prop, "len-changed", format!("{}: len() changed", d));
                }
                self.cx.rep.hit("zst");
            }
        }
        z_set_eq(true);
        if ledger::viol_total() > 0 {
            self.cx.rep.absorb_violations(&prop, &|| vec![format!("zero-sized get_disjoint_mut N={}", N)]);
        }
    }

    /// large maps (N = 300, so slot indices beyond 255) and long tuples (J = 65, 70 > 64)
    pub fn big(&mut self, cases: u64, modes: &[Mode]) {
        const N: usize = 300;
        for i in 0..cases {
            let mut rng: Rng = self.cx.hist_rng(11_000_000 + i * self.cx.shard.1 + self.cx.shard.0);
            ledger::reset();
            let len = if rng.chance(1, 2) { N } else { 257 + rng.usize_below(N - 257) };
            let mut cl: Vec<u32> = (1..=(N as u32 + 5)).collect();
            rng.shuffle(&mut cl);
            let layout: Vec<u32> = cl[..len].to_vec();
            let mut m: Map<TK, TV, N> = Map::new();
            for (i, c) in layout.iter().enumerate() {
                m.insert(TK::new(*c, i as u32), TV::new(100 + *c));
            }
            let mut fr = Frame::boxed(m);
            self.case_no += 1;
            // keys stored in slots >= 256, mixed with low slots and absent keys
            let hi = |rng: &mut Rng| layout[256 + rng.usize_below(len - 256)];
            let lo = |rng: &mut Rng| layout[rng.usize_below(256)];
            let absent = N as u32 + 50;
            for _ in 0..4 {
                let (a, b, c) = (hi(&mut rng), lo(&mut rng), hi(&mut rng));
                for mode in modes {
                    self.one::<N, 2>(&mut fr, &layout, [a, b], *mode);
                    self.one::<N, 2>(&mut fr, &layout, [a, absent], *mode);
                    if a != c {
                        self.one::<N, 3>(&mut fr, &layout, [c, b, a], *mode);
                    }
                }
            }
            // more than 64 pairwise-different keys
            rng.shuffle(&mut cl);
            let t65: [u32; 65] = core::array::from_fn(|i| cl[i]);
            let t70: [u32; 70] = core::array::from_fn(|i| cl[cl.len() - 1 - i]);
            for mode in modes {
                self.one::<N, 65>(&mut fr, &layout, t65, *mode);
                self.one::<N, 70>(&mut fr, &layout, t70, *mode);
            }
            self.cx.rep.hit("big-map(N=300):slots>=256");
            self.cx.rep.hit("long-tuple(J>64)");
            drop(fr);
            if ledger::viol_total() > 0 {
                let d = format!("big case: Map<_,_,300> with {} entries (slot order starts {:?}...)", len, &layout[..8]);
                self.cx.rep.absorb_violations(&self.cx.prop.clone(), &|| vec![d.clone()]);
            }
        }
    }

    /// random larger maps with longer tuples (J = 5, 8)
    pub fn random<const N: usize>(&mut self, cases: u64, modes: &[Mode]) {
        for i in 0..cases {
            let mut rng: Rng = self.cx.hist_rng(9_000_000 + i * self.cx.shard.1 + self.cx.shard.0 + N as u64 * 7919);
            ledger::reset();
            let u = N as u32 + 3;
            let mut cl: Vec<u32> = (1..=u).collect();
            rng.shuffle(&mut cl);
            let len = rng.usize_below(N + 1);
            let layout: Vec<u32> = cl[..len].to_vec();
            let mut m: Map<TK, TV, N> = Map::new();
            for (i, c) in layout.iter().enumerate() {
                m.insert(TK::new(*c, i as u32), TV::new(100 + *c));
            }
            let mut fr = Frame::boxed(m);
            self.case_no += 1;
            let distinct = rng.chance(3, 4);
            rng.shuffle(&mut cl);
            let t5: [u32; 5] = core::array::from_fn(|i| if distinct { cl[i % cl.len()] } else { cl[rng.usize_below(cl.len())] });
            let t8: [u32; 8] = core::array::from_fn(|i| if distinct && cl.len() >= 8 { cl[i] } else { cl[rng.usize_below(cl.len())] });
            for mode in modes {
                self.one::<N, 5>(&mut fr, &layout, t5, *mode);
                self.one::<N, 8>(&mut fr, &layout, t8, *mode);
            }
            self.cx.rep.hit("random-long-tuple");
            drop(fr);
            if ledger::viol_total() > 0 {
                let d = format!("random case: Map<_,_,{}> state={:?} tuples {:?} {:?}", N, layout, t5, t8);
                self.cx.rep.absorb_violations(&self.cx.prop.clone(), &|| vec![d.clone()]);
            }
        }
    }
}
