//! C11 engine: the entry API against the direct map operations, by the twin technique.
//!
//! Two maps are built identically (same classes, tags, values, slot order).  Twin A is driven
//! through an entry method chain, twin B through the direct operations the property names.
//! Both produce a list of observations (returned values, key tags, closure-call counts,
//! panicked or not); the lists must be equal, the two maps must hold the same dictionary with
//! the same stored-key tags afterwards, entries other than the target must be the very same
//! objects as before (ledger ids), and a reference returned by an entry method must have the
//! address `get_mut(k)` reports right afterwards.
//!
//! Chains are enumerated (not sampled); states are ALL slot layouts over a 4-class universe
//! for N in 0..=4 (incl. full maps, where a vacant insert must panic exactly like `insert`).

use crate::common::Ctx;
use crate::panicsafe::layouts;
use micromap::{Entry, Map};
use support::elems::{tv_default_calls, z_live, z_set_eq, Class, DEFAULT_PAYLOAD, TK, TV, Z};
use support::fault::{self, Caught};
use support::frame::addr_of;
use support::ledger;
use support::rng::{Fp, Rng};

pub const CHAINS: [&str; 25] = [
    "key", "or_insert", "or_insert_with", "or_insert_with_key", "or_default", "and_modify.or_insert", "and_modify.or_default",
    "and_modify.and_modify.or_insert_with", "occ.key|vac.key", "occ.get|vac.into_key", "occ.get_mut.write|vac.insert",
    "occ.insert|vac.insert.write", "occ.remove|vac.key", "occ.remove_entry|vac.into_key", "occ.into_mut.write|vac.insert",
    "occ.get.insert.remove|vac.key.insert", "occ.get_mut.get.key|vac.key.into_key", "or_insert.write", "or_insert_with_key.write",
    "occ.insert.insert.get|vac.insert", "and_modify.key.or_insert", "occ.remove_entry|vac.insert",
    // closures that unwind: the direct counterpart `if !contains_key(k) { insert(k, f()) }` stores nothing when f() panics
    "or_insert_with(panics)", "or_insert_with_key(panics)", "and_modify(panics).or_insert",
];

type Obs = Vec<(&'static str, u64)>;

pub struct Ent<'a> {
    pub cx: &'a mut Ctx,
    pub case_no: u64,
}

fn v(what: &str, msg: String) {
    let (_, _, op) = ledger::ctx();
    ledger::violation("C11", format!("{}@{}", what, op), msg);
}

fn build<const N: usize>(layout: &[u32]) -> Map<TK, TV, N> {
    let mut m = Map::new();
    for (i, c) in layout.iter().enumerate() {
        m.insert(TK::new(*c, i as u32), TV::new(100 + *c));
    }
    m
}

fn kt(k: &TK) -> u64 {
    k.check("entry key");
    u64::from(k.class) << 32 | u64::from(k.tag)
}

const NEWP: u32 = 555;
const NEWP2: u32 = 556;
const WR: u32 = 777;
const MOD: u32 = 1_000_000;
const KTAG: u32 = 4242;

/// Twin A: through the entry API.  `addr` receives the address of a returned value reference.
fn via_entry<const N: usize>(chain: usize, m: &mut Map<TK, TV, N>, kc: u32, o: &mut Obs, addr: &mut Option<usize>) {
    let k = TK::new(kc, KTAG);
    let mut calls = [0u64; 3];
    let defaults0 = tv_default_calls();
    let e = m.entry(k);
    o.push(("occupied", u64::from(matches!(e, Entry::Occupied(_)))));
    match chain {
        0 => o.push(("key", kt(e.key()))),
        1 => {
            let r = e.or_insert(TV::new(NEWP));
            r.check("or_insert ref");
            o.push(("ref", u64::from(r.payload)));
            *addr = Some(addr_of(r));
        }
        17 => {
            let r = e.or_insert(TV::new(NEWP));
            o.push(("ref", u64::from(r.payload)));
            r.payload = WR;
            *addr = Some(addr_of(r));
        }
        2 => {
            let r = e.or_insert_with(|| {
                calls[0] += 1;
                TV::new(NEWP)
            });
            o.push(("ref", u64::from(r.payload)));
            *addr = Some(addr_of(r));
        }
        3 | 18 => {
            let mut seen = 0u64;
            let r = e.or_insert_with_key(|kk| {
                calls[0] += 1;
                seen = kt(kk);
                TV::new(NEWP)
            });
            o.push(("ref", u64::from(r.payload)));
            if chain == 18 {
                r.payload = WR;
            }
            *addr = Some(addr_of(r));
            o.push(("closure-key", seen));
        }
        4 => {
            let r = e.or_default();
            o.push(("ref", u64::from(r.payload)));
            *addr = Some(addr_of(r));
        }
        22 => {
            let r = e.or_insert_with(|| panic!("user closure panics"));
            o.push(("ref", u64::from(r.payload)));
            *addr = Some(addr_of(r));
        }
        23 => {
            let r = e.or_insert_with_key(|kk| {
                kk.check("closure key");
                panic!("user closure panics")
            });
            o.push(("ref", u64::from(r.payload)));
            *addr = Some(addr_of(r));
        }
        24 => {
            let r = e
                .and_modify(|x| {
                    x.payload += MOD;
                    panic!("user closure panics")
                })
                .or_insert(TV::new(NEWP));
            o.push(("ref", u64::from(r.payload)));
            *addr = Some(addr_of(r));
        }
        5 => {
            let r = e
                .and_modify(|x| {
                    calls[1] += 1;
                    x.check("and_modify arg");
                    x.payload += MOD;
                })
                .or_insert(TV::new(NEWP));
            o.push(("ref", u64::from(r.payload)));
            *addr = Some(addr_of(r));
        }
        6 => {
            let r = e
                .and_modify(|x| {
                    calls[1] += 1;
                    x.payload += MOD;
                })
                .or_default();
            o.push(("ref", u64::from(r.payload)));
            *addr = Some(addr_of(r));
        }
        7 => {
            let r = e
                .and_modify(|x| {
                    calls[1] += 1;
                    x.payload += MOD;
                })
                .and_modify(|x| {
                    calls[2] += 1;
                    x.payload += 2 * MOD;
                })
                .or_insert_with(|| {
                    calls[0] += 1;
                    TV::new(NEWP)
                });
            o.push(("ref", u64::from(r.payload)));
            *addr = Some(addr_of(r));
        }
        20 => {
            let e2 = e.and_modify(|x| {
                calls[1] += 1;
                x.payload += MOD;
            });
            o.push(("key", kt(e2.key())));
            let r = e2.or_insert(TV::new(NEWP));
            o.push(("ref", u64::from(r.payload)));
            *addr = Some(addr_of(r));
        }
        _ => match e {
            Entry::Occupied(mut oc) => match chain {
                8 => o.push(("key", kt(oc.key()))),
                9 => {
                    oc.get().check("occ get");
                    o.push(("get", u64::from(oc.get().payload)));
                }
                10 => {
                    let r = oc.get_mut();
                    o.push(("get_mut", u64::from(r.payload)));
                    r.payload = WR;
                    *addr = Some(addr_of(r));
                }
                11 => {
                    let old = oc.insert(TV::new(NEWP));
                    old.check("occ insert result");
                    o.push(("old", u64::from(old.payload)));
                }
                12 => {
                    let old = oc.remove();
                    old.check("occ remove result");
                    o.push(("removed", u64::from(old.payload)));
                }
                13 | 21 => {
                    let (kk, old) = oc.remove_entry();
                    o.push(("removed-key", kt(&kk)));
                    o.push(("removed", u64::from(old.payload)));
                }
                14 => {
                    let r = oc.into_mut();
                    o.push(("into_mut", u64::from(r.payload)));
                    r.payload = WR;
                    *addr = Some(addr_of(r));
                }
                15 => {
                    o.push(("get", u64::from(oc.get().payload)));
                    let old = oc.insert(TV::new(NEWP));
                    o.push(("old", u64::from(old.payload)));
                    let rem = oc.remove();
                    o.push(("removed", u64::from(rem.payload)));
                }
                16 => {
                    oc.get_mut().payload = WR;
                    o.push(("get", u64::from(oc.get().payload)));
                    o.push(("key", kt(oc.key())));
                }
                19 => {
                    let a = oc.insert(TV::new(NEWP));
                    let b = oc.insert(TV::new(NEWP2));
                    o.push(("old", u64::from(a.payload)));
                    o.push(("old2", u64::from(b.payload)));
                    o.push(("get", u64::from(oc.get().payload)));
                }
                _ => unreachable!(),
            },
            Entry::Vacant(va) => match chain {
                8 | 12 => o.push(("key", kt(va.key()))),
                9 | 13 => {
                    let kk = va.into_key();
                    o.push(("into_key", kt(&kk)));
                }
                10 | 14 | 19 | 21 => {
                    let r = va.insert(TV::new(NEWP));
                    r.check("vacant insert ref");
                    o.push(("ref", u64::from(r.payload)));
                    *addr = Some(addr_of(r));
                }
                11 => {
                    let r = va.insert(TV::new(NEWP));
                    o.push(("ref", u64::from(r.payload)));
                    r.payload = WR;
                    *addr = Some(addr_of(r));
                }
                15 => {
                    o.push(("key", kt(va.key())));
                    let r = va.insert(TV::new(NEWP));
                    o.push(("ref", u64::from(r.payload)));
                    *addr = Some(addr_of(r));
                }
                16 => {
                    o.push(("key", kt(va.key())));
                    let kk = va.into_key();
                    o.push(("into_key", kt(&kk)));
                }
                _ => unreachable!(),
            },
        },
    }
    o.push(("calls-default", calls[0]));
    o.push(("calls-modify", calls[1]));
    o.push(("calls-modify2", calls[2]));
    o.push(("V::default-calls", tv_default_calls() - defaults0));
}

/// Twin B: the same effect through the direct operations named by the property.
fn via_direct<const N: usize>(chain: usize, m: &mut Map<TK, TV, N>, kc: u32, o: &mut Obs) {
    let q = Class(kc);
    let present = m.contains_key(&q);
    let supplied = u64::from(kc) << 32 | u64::from(KTAG);
    let stored_key = |m: &Map<TK, TV, N>| m.get_key_value(&q).map(|(k, _)| kt(k)).unwrap_or(0);
    let mut calls = [0u64; 3];
    o.push(("occupied", u64::from(present)));
    // "insert only when vacant, then look the value up"
    let or_insert = |m: &mut Map<TK, TV, N>, o: &mut Obs, p: u32, write: Option<u32>| {
        if !present {
            m.insert(TK::new(kc, KTAG), TV::new(p));
        }
        let r = m.get_mut(&q).expect("just ensured");
        o.push(("ref", u64::from(r.payload)));
        if let Some(w) = write {
            r.payload = w;
        }
    };
    let modify = |m: &mut Map<TK, TV, N>, by: u32| {
        if let Some(x) = m.get_mut(&q) {
            x.payload += by;
        }
    };
    match chain {
        0 => o.push(("key", if present { stored_key(m) } else { supplied })),
        1 => or_insert(m, o, NEWP, None),
        17 => or_insert(m, o, NEWP, Some(WR)),
        2 => {
            calls[0] = u64::from(!present);
            or_insert(m, o, NEWP, None);
        }
        3 | 18 => {
            calls[0] = u64::from(!present);
            or_insert(m, o, NEWP, if chain == 18 { Some(WR) } else { None });
            o.push(("closure-key", if present { 0 } else { supplied }));
        }
        4 => or_insert(m, o, DEFAULT_PAYLOAD, None),
        22 | 23 => {
            if !present {
                // `insert(k, f())`: the value is computed first, the panic leaves the map alone
                let _k = TK::new(kc, KTAG);
                panic!("user closure panics");
            }
            or_insert(m, o, NEWP, None);
        }
        24 => {
            if present {
                modify(m, MOD);
                panic!("user closure panics");
            }
            or_insert(m, o, NEWP, None);
        }
        5 => {
            calls[1] = u64::from(present);
            modify(m, MOD);
            or_insert(m, o, NEWP, None);
        }
        6 => {
            calls[1] = u64::from(present);
            modify(m, MOD);
            or_insert(m, o, DEFAULT_PAYLOAD, None);
        }
        7 => {
            calls[1] = u64::from(present);
            calls[2] = u64::from(present);
            calls[0] = u64::from(!present);
            modify(m, MOD);
            modify(m, 2 * MOD);
            or_insert(m, o, NEWP, None);
        }
        20 => {
            calls[1] = u64::from(present);
            modify(m, MOD);
            o.push(("key", if present { stored_key(m) } else { supplied }));
            or_insert(m, o, NEWP, None);
        }
        _ if present => match chain {
            8 => o.push(("key", stored_key(m))),
            9 => o.push(("get", u64::from(m.get(&q).unwrap().payload))),
            10 => {
                let r = m.get_mut(&q).unwrap();
                o.push(("get_mut", u64::from(r.payload)));
                r.payload = WR;
            }
            11 => {
                // OccupiedEntry::insert == insert of a present key: old value back, key kept
                let old = m.insert(TK::new(kc, KTAG), TV::new(NEWP)).unwrap();
                o.push(("old", u64::from(old.payload)));
            }
            12 => o.push(("removed", u64::from(m.remove(&q).unwrap().payload))),
            13 | 21 => {
                let (kk, old) = m.remove_entry(&q).unwrap();
                o.push(("removed-key", kt(&kk)));
                o.push(("removed", u64::from(old.payload)));
            }
            14 => {
                let r = m.get_mut(&q).unwrap();
                o.push(("into_mut", u64::from(r.payload)));
                r.payload = WR;
            }
            15 => {
                o.push(("get", u64::from(m.get(&q).unwrap().payload)));
                let old = m.insert(TK::new(kc, KTAG), TV::new(NEWP)).unwrap();
                o.push(("old", u64::from(old.payload)));
                o.push(("removed", u64::from(m.remove(&q).unwrap().payload)));
            }
            16 => {
                m.get_mut(&q).unwrap().payload = WR;
                o.push(("get", u64::from(m.get(&q).unwrap().payload)));
                o.push(("key", stored_key(m)));
            }
            19 => {
                let a = m.insert(TK::new(kc, KTAG), TV::new(NEWP)).unwrap();
                let b = m.insert(TK::new(kc, KTAG + 1), TV::new(NEWP2)).unwrap();
                o.push(("old", u64::from(a.payload)));
                o.push(("old2", u64::from(b.payload)));
                o.push(("get", u64::from(m.get(&q).unwrap().payload)));
            }
            _ => unreachable!(),
        },
        _ => match chain {
            8 | 12 => o.push(("key", supplied)),
            9 | 13 => o.push(("into_key", supplied)),
            10 | 14 | 19 | 21 => or_insert(m, o, NEWP, None),
            11 => or_insert(m, o, NEWP, Some(WR)),
            15 => {
                o.push(("key", supplied));
                or_insert(m, o, NEWP, None);
            }
            16 => {
                o.push(("key", supplied));
                o.push(("into_key", supplied));
            }
            _ => unreachable!(),
        },
    }
    o.push(("calls-default", calls[0]));
    o.push(("calls-modify", calls[1]));
    o.push(("calls-modify2", calls[2]));
    // or_default builds the default value exactly when the entry is vacant, and no other chain builds one
    o.push(("V::default-calls", u64::from(matches!(chain, 4 | 6) && !present)));
}

fn dict<const N: usize>(m: &Map<TK, TV, N>) -> Vec<(u32, u32, u32)> {
    let mut d: Vec<(u32, u32, u32)> = m
        .iter()
        .map(|(k, x)| {
            k.check("twin key");
            x.check("twin value");
            (k.class, k.tag, x.payload)
        })
        .collect();
    d.sort_unstable();
    d
}

impl<'a> Ent<'a> {
    pub fn case<const N: usize>(&mut self, layout: &[u32], chain: usize, kc: u32) {
        let name = CHAINS[chain];
        ledger::reset();
        ledger::set_ctx(self.case_no, chain as u32, name);
        self.cx.rep.evaluations += 1;
        let descr = format!("Map<_,_,{}> state={:?} key-class={} chain entry().{}", N, layout, kc, name);
        let pos = crate::maphist::pos_name(layout, kc);
        let fill = crate::maphist::fill_name(layout.len(), N);
        self.cx.rep.hit(&format!("{}:{}:{}", name, pos, fill));
        let mut fp = Fp::new(0xE11 + N as u64);
        for c in layout {
            fp.add(u64::from(*c));
        }
        fp.add(0xFFFF + chain as u64);
        fp.add(u64::from(kc));
        self.cx.rep.fps.add(fp.get());
        let mut a = build::<N>(layout);
        let mut b = build::<N>(layout);
        // identity of every entry of A before the call
        let before: Vec<(u32, u64, u64)> = a.iter().map(|(k, x)| (k.class, k.id, x.id)).collect();
        let mut oa: Obs = Vec::new();
        let mut ob: Obs = Vec::new();
        let mut addr: Option<usize> = None;
        let ra = fault::catch(|| via_entry::<N>(chain, &mut a, kc, &mut oa, &mut addr));
        let rb = fault::catch(|| via_direct::<N>(chain, &mut b, kc, &mut ob));
        let pa = ra.panicked();
        let pb = rb.panicked();
        if pa != pb {
            let m = match (&ra, &rb) {
                (Caught::Panic(m), _) | (_, Caught::Panic(m)) => m.clone(),
                _ => String::new(),
            };
            v("panic-differs", format!("{}: the entry chain {} but the direct operations {} ({})", descr, if pa { "panicked" } else { "returned" }, if pb { "panicked" } else { "returned" }, m));
        } else if pa {
            self.cx.rep.hit(if chain >= 22 { "both-panic(user closure)" } else { "both-panic(full map, vacant insert)" });
            // observations made before the panic must agree on their common prefix
            let n = oa.len().min(ob.len());
            if oa[..n] != ob[..n] {
                v("observations", format!("{}: before both paths panicked, entry path observed {:?}, direct path {:?}", descr, oa, ob));
            }
        } else if oa != ob {
            v("observations", format!("{}: entry path observed {:?}; the direct operations give {:?}", descr, oa, ob));
        }
        // same dictionary, same stored-key tags
        let (da, db) = (dict(&a), dict(&b));
        if da != db {
            v("post-state", format!("{}: map after the entry chain = {:?} (class, key tag, value); after the direct operations = {:?}", descr, da, db));
        }
        // no other entry touched: every non-target entry is the same object pair as before
        for (k, x) in a.iter() {
            if k.class == kc {
                continue;
            }
            match before.iter().find(|e| e.0 == k.class) {
                Some(e) if e.1 == k.id && e.2 == x.id => {}
                _ => v("other-entry-touched", format!("{}: the entry of class {} is not the object pair it was before", descr, k.class)),
            }
        }
        for e in &before {
            if e.0 != kc && !a.iter().any(|(k, _)| k.class == e.0) {
                v("other-entry-touched", format!("{}: the entry of class {} disappeared", descr, e.0));
            }
        }
        // a returned reference is the entry's value slot
        if let (Some(p), false) = (addr, pa) {
            let now = a.get_mut(&Class(kc)).map(|x| addr_of(x));
            if now != Some(p) {
                v("reference-address", format!("{}: the returned reference points to {:#x} but get_mut(k) right afterwards is {:x?}", descr, p, now));
            }
            self.cx.rep.num("reference_addresses_compared", 1);
        }
        drop(a);
        drop(b);
        if ledger::alive_count() != 0 {
            ledger::violation("C02", "leak@entry", format!("{}: {} objects alive after both twins were dropped", descr, ledger::alive_count()));
        }
        if ledger::viol_total() > 0 {
            self.cx.rep.absorb_violations("C11", &|| vec![descr.clone()]);
        }
    }

    /// zero-sized key and value: `Map<Z, (), N>` (all keys equal, or all keys different)
    pub fn zst<const N: usize>(&mut self) {
        self.case_no += 1;
        ledger::set_ctx(self.case_no, 0, "entry(zero-sized)");
        let live0 = z_live();
        let mut problems: Vec<String> = Vec::new();
        for all_equal in [true, false] {
            z_set_eq(all_equal);
            for fill in 0..=N {
                if all_equal && fill > 1 {
                    continue;
                }
                for chain in 0..7 {
                    self.cx.rep.evaluations += 1;
                    let mut m: Map<Z, (), N> = Map::new();
                    for _ in 0..fill {
                        m.insert(Z::new(), ());
                    }
                    let present = all_equal && fill == 1;
                    let full = fill == N;
                    let mut calls = 0u32;
                    let r = fault::catch(|| {
                        let e = m.entry(Z::new());
                        let occ = matches!(e, Entry::Occupied(_));
                        match chain {
                            0 => {
                                let _ = e.key();
                            }
                            1 => {
                                e.or_insert(());
                            }
                            2 => {
                                e.or_insert_with(|| {
                                    calls += 1;
                                });
                            }
                            3 => {
                                e.or_default();
                            }
                            4 => {
                                e.and_modify(|_| calls += 1).or_insert(());
                            }
                            5 => match e {
                                Entry::Occupied(mut o) => {
                                    let _ = o.key();
                                    let _ = o.get();
                                    *o.get_mut() = ();
                                    o.insert(());
                                    let _ = o.remove();
                                }
                                Entry::Vacant(v) => {
                                    let _ = v.key();
                                    drop(v.into_key());
                                }
                            },
                            _ => match e {
                                Entry::Occupied(o) => {
                                    drop(o.remove_entry());
                                }
                                Entry::Vacant(v) => {
                                    v.insert(());
                                }
                            },
                        }
                        occ
                    });
                    let inserting = matches!(chain, 1 | 2 | 3 | 4) || (chain == 6 && !present);
                    let must_panic = !present && full && inserting;
                    let d = format!("Map<Z,(),{}> keys-all-equal={} holding {} entr{}: entry(Z) chain #{}", N, all_equal, fill, if fill == 1 { "y" } else { "ies" }, chain);
                    match r {
                        Caught::Ok(occ) => {
                            if occ != present {
                                problems.push(format!("{}: Occupied={} but the key is present={}", d, occ, present));
                            }
                            if must_panic {
                                problems.push(format!("{}: added a new key to a full map without panicking", d));
                            }
                            let want_len = if present { if chain >= 5 { 0 } else { 1 } } else if inserting { fill + 1 } else { fill };
                            if m.len() != want_len || m.iter().count() != want_len {
                                problems.push(format!("{}: len() = {} afterwards, the direct operations give {}", d, m.len(), want_len));
                            }
                            let want_calls = match chain {
                                2 => u32::from(!present),
                                4 => u32::from(present),
                                _ => 0,
                            };
                            if calls != want_calls {
                                problems.push(format!("{}: closure ran {} times, expected {}", d, calls, want_calls));
                            }
                        }
                        Caught::Panic(msg) => {
                            if !must_panic {
                                problems.push(format!("{}: panicked ({}) where the direct operations do not", d, msg));
                            }
                        }
                        Caught::Injected(..) => {}
                    }
                    drop(m);
                }
            }
        }
        z_set_eq(true);
        if z_live() != live0 {
            problems.push(format!("Map<Z,(),{}>: {} zero-sized keys alive after every map was dropped", N, z_live() - live0));
        }
        self.cx.rep.hit(&format!("zst:N={}", N));
        for p in problems {
            v("zero-sized-entry", p);
        }
        if ledger::viol_total() > 0 {
            self.cx.rep.absorb_violations("C11", &|| vec![format!("zero-sized key/value entry probe, N={}", N)]);
        }
    }

    pub fn space<const N: usize>(&mut self, u: u32) {
        let (si, sn) = self.cx.shard;
        for layout in layouts(u, N) {
            let mut keys: Vec<u32> = layout.clone();
            keys.push(9);
            for kc in keys {
                for chain in 0..CHAINS.len() {
                    self.case_no += 1;
                    if let Some(h) = self.cx.only_hist {
                        if h != self.case_no {
                            continue;
                        }
                    } else if self.case_no % sn != si {
                        continue;
                    }
                    if self.cx.rep.viol_total > 100 {
                        return;
                    }
                    self.case::<N>(&layout, chain, kc);
                    if self.cx.rep.samples.len() < 4 && self.case_no % 499 == si {
                        self.cx.rep.sample(format!("case {}: Map<_,_,{}> state={:?} key-class={} entry().{} vs direct operations on a twin", self.case_no, N, layout, kc, CHAINS[chain]));
                    }
                }
            }
        }
        self.cx.rep.hit(&format!("space:N={},u={}", N, u));
    }

    pub fn random<const N: usize>(&mut self, n: u64) {
        for i in 0..n {
            let mut rng: Rng = self.cx.hist_rng(2_000_000 + i * self.cx.shard.1 + self.cx.shard.0 + N as u64 * 32_452_843);
            let u = N as u32 + 3;
            let mut cl: Vec<u32> = (1..=u).collect();
            rng.shuffle(&mut cl);
            let len = if rng.chance(1, 3) { N } else { rng.usize_below(N + 1) };
            let layout: Vec<u32> = cl[..len].to_vec();
            let kc = if rng.chance(1, 2) && !layout.is_empty() { layout[rng.usize_below(layout.len())] } else { 1 + rng.below(u64::from(u)) as u32 };
            let chain = rng.usize_below(CHAINS.len());
            self.case_no += 1;
            self.case::<N>(&layout, chain, kc);
            self.cx.rep.hit("random-state");
        }
    }
}
