//! C14 engine: equality is extensional.  Exhaustive sub-space: all ordered arrangements of all
//! subsets of a 4-class universe with 2 possible values per class (633 map states, 65 set
//! states), every ordered pair of them, for several capacity pairs; `a == b` and `b == a` are
//! compared with the model's extensional equality, `a == a` must hold, and no operand may be
//! changed (fingerprints, and the ledger must see no construction / clone / destruction).

use crate::common::Ctx;
use crate::fam::{Fam, KeyF, ValF};
use crate::panicsafe::layouts;
use micromap::{Map, Set};
use support::elems::{z_set_eq, Z};
use support::ledger;
use support::rng::{Fp, Rng};

/// zero-sized value whose `==` never holds (the zero-sized analogue of NaN / SQL NULL)
#[derive(Clone, Copy, Debug)]
pub struct NeverEq;
impl PartialEq for NeverEq {
    fn eq(&self, _: &Self) -> bool {
        false
    }
}
/// zero-sized value that is always equal
#[derive(Clone, Copy, Debug, PartialEq)]
pub struct Unit;

pub struct Eqc<'a> {
    pub cx: &'a mut Ctx,
    pub group: u64,
}

fn v(what: &str, msg: String) {
    let (_, _, op) = ledger::ctx();
    ledger::violation("C14", format!("{}@{}", what, op), msg);
}

/// all (class, value-bit) states over a u-class universe that fit `maxlen`
pub fn valued_layouts(u: u32, maxlen: usize, values: u32) -> Vec<Vec<(u32, u32)>> {
    let mut out = Vec::new();
    for l in layouts(u, maxlen) {
        let n = l.len() as u32;
        for bits in 0..values.pow(n) {
            let mut b = bits;
            out.push(
                l.iter()
                    .map(|c| {
                        let x = b % values;
                        b /= values;
                        (*c, x)
                    })
                    .collect(),
            );
        }
    }
    out
}

fn model_eq(a: &[(u32, u32)], b: &[(u32, u32)]) -> bool {
    a.len() == b.len() && a.iter().all(|x| b.contains(x))
}

fn kind(a: &[(u32, u32)], b: &[(u32, u32)]) -> &'static str {
    if model_eq(a, b) {
        if a == b {
            "equal:same-order"
        } else {
            "equal:different-order"
        }
    } else if a.len() != b.len() {
        "unequal:length"
    } else {
        let keys_same = a.iter().all(|x| b.iter().any(|y| y.0 == x.0));
        if keys_same {
            let nd = a.iter().filter(|x| !b.contains(x)).count();
            if nd == 1 {
                "unequal:one-value"
            } else {
                "unequal:values"
            }
        } else {
            let nk = a.iter().filter(|x| !b.iter().any(|y| y.0 == x.0)).count();
            if nk == 1 {
                "unequal:one-key"
            } else {
                "unequal:keys"
            }
        }
    }
}

fn mk_map<F: Fam, const N: usize>(st: &[(u32, u32)]) -> Map<F::K, F::V, N> {
    let mut m = Map::new();
    for (i, (c, x)) in st.iter().enumerate() {
        m.insert(F::K::mk(*c, i as u32), F::V::mk(*x));
    }
    m
}
fn fp_map<F: Fam, const N: usize>(m: &Map<F::K, F::V, N>) -> u64 {
    let mut f = Fp::new(m.len() as u64);
    for (k, x) in m.iter() {
        f.add(u64::from(k.class()));
        f.add(u64::from(k.tag()));
        f.add(k.id());
        f.add(u64::from(x.payload()));
        f.add(x.id());
    }
    f.get()
}
fn mk_set<F: Fam, const N: usize>(st: &[(u32, u32)]) -> Set<F::K, N> {
    let mut m = Set::new();
    for (i, (c, _)) in st.iter().enumerate() {
        m.insert(F::K::mk(*c, i as u32));
    }
    m
}
fn fp_set<F: Fam, const N: usize>(m: &Set<F::K, N>) -> u64 {
    let mut f = Fp::new(m.len() as u64);
    for k in m.iter() {
        f.add(u64::from(k.class()));
        f.add(u64::from(k.tag()));
        f.add(k.id());
    }
    f.get()
}

impl<'a> Eqc<'a> {
    /// every ordered pair (a in states_n, b in states_m), sharded by the index of a
    pub fn map_pairs<F: Fam, const N: usize, const M: usize>(&mut self, u: u32) {
        let (si, sn) = self.cx.shard;
        let sa = valued_layouts(u, N, 2);
        let sb = valued_layouts(u, M, 2);
        ledger::reset();
        ledger::set_ctx(self.group, 0, "map==");
        let bs: Vec<Map<F::K, F::V, M>> = sb.iter().map(|s| mk_map::<F, M>(s)).collect();
        let bfp: Vec<u64> = bs.iter().map(|m| fp_map::<F, M>(m)).collect();
        for (ia, st_a) in sa.iter().enumerate() {
            self.group += 1;
            if let Some(h) = self.cx.only_hist {
                if h != self.group {
                    continue;
                }
            } else if self.group % sn != si {
                continue;
            }
            if self.cx.rep.viol_total > 100 {
                return;
            }
            let a = mk_map::<F, N>(st_a);
            let afp = fp_map::<F, N>(&a);
            let c0 = ledger::counts();
            #[allow(clippy::eq_op)]
            if !(a == a) {
                v("not-reflexive", format!("Map<_,_,{}> {:?} != itself", N, st_a));
            }
            for (ib, st_b) in sb.iter().enumerate() {
                let want = model_eq(st_a, st_b);
                let ab = a == bs[ib];
                let ba = bs[ib] == a;
                self.cx.rep.evaluations += 1;
                if ab != want || ba != want {
                    v(if ab != ba { "asymmetric" } else { "wrong-answer" }, format!("a = Map<_,_,{}> {:?}, b = Map<_,_,{}> {:?} (as (class, value) in slot order): a == b is {}, b == a is {}, extensionally {} [{}]", N, st_a, M, st_b, ab, ba, want, kind(st_a, st_b)));
                }
                // `!=` is the same comparison read the other way round
                #[allow(clippy::nonminimal_bool)]
                let (nab, nba) = (a != bs[ib], bs[ib] != a);
                if nab == want || nba == want {
                    v("ne-is-not-the-negation", format!("a = Map<_,_,{}> {:?}, b = Map<_,_,{}> {:?}: a != b is {}, b != a is {}, but the maps are extensionally {} [{}]", N, st_a, M, st_b, nab, nba, if want { "equal" } else { "unequal" }, kind(st_a, st_b)));
                }
                let k = kind(st_a, st_b);
                self.cx.rep.hit(k);
                if !(st_a.is_empty() && st_b.is_empty()) {
                    let mut f = Fp::new(0xE0 + (N * 64 + M) as u64);
                    f.add(ia as u64);
                    f.add(ib as u64);
                    self.cx.rep.fps.add(f.get());
                }
            }
            let c1 = ledger::counts();
            if F::TRACKED && (c1.news != c0.news || c1.clones != c0.clones || c1.drops != c0.drops) {
                v("operand-touched", format!("comparing Map<_,_,{}> {:?} created, cloned or destroyed elements", N, st_a));
            }
            if fp_map::<F, N>(&a) != afp {
                v("operand-changed", format!("Map<_,_,{}> {:?} was changed by ==", N, st_a));
            }
            if self.cx.rep.samples.len() < 3 && ia % 97 == 5 {
                self.cx.rep.sample(format!("a = Map<_,_,{}> {:?} compared both ways with all {} states of Map<_,_,{}> over a {}-class universe x 2 values", N, st_a, sb.len(), M, u));
            }
            drop(a);
            if ledger::viol_total() > 0 {
                self.cx.rep.absorb_violations("C14", &|| vec![format!("group {}: left operand {:?}", ia, st_a)]);
            }
        }
        for (i, m) in bs.iter().enumerate() {
            if fp_map::<F, M>(m) != bfp[i] {
                v("operand-changed", format!("right operand Map<_,_,{}> {:?} was changed by ==", M, sb[i]));
            }
        }
        drop(bs);
        if ledger::viol_total() > 0 {
            self.cx.rep.absorb_violations("C14", &|| vec!["right operands after all comparisons".to_string()]);
        }
        self.cx.rep.hit(&format!("map-space:N={},M={}", N, M));
    }

    /// zero-sized key and value (and zero-sized set elements): all keys equal, or all keys different
    pub fn zst_pairs<const N: usize, const M: usize>(&mut self) {
        ledger::set_ctx(self.group, 0, "zst==");
        for all_equal in [true, false] {
            z_set_eq(all_equal);
            for la in 0..=N {
                for lb in 0..=M {
                    if all_equal && (la > 1 || lb > 1) {
                        continue;
                    }
                    self.cx.rep.evaluations += 1;
                    let mut a: Map<Z, (), N> = Map::new();
                    let mut b: Map<Z, (), M> = Map::new();
                    let mut sa: Set<Z, N> = Set::new();
                    let mut sb: Set<Z, M> = Set::new();
                    for _ in 0..la {
                        a.insert(Z::new(), ());
                        sa.insert(Z::new());
                    }
                    for _ in 0..lb {
                        b.insert(Z::new(), ());
                        sb.insert(Z::new());
                    }
                    // all keys equal: equal iff same length; all keys different: equal iff both empty
                    let want = if all_equal { la == lb } else { la == 0 && lb == 0 };
                    let got = [a == b, b == a, !(a != b), !(b != a), sa == sb, sb == sa, !(sa != sb)];
                    if got.iter().any(|g| *g != want) {
                        v("zero-sized", format!("zero-sized keys (all equal = {}): Map<Z,(),{}> with {} entries vs Map<Z,(),{}> with {}: [a==b, b==a, !(a!=b), !(b!=a), set a==b, set b==a, !(set a!=b)] = {:?}, extensionally {}", all_equal, N, la, M, lb, got, want));
                    }
                    if a.len() != la || b.len() != lb {
                        v("operand-changed", "a zero-sized operand changed its length".into());
                    }
                    self.cx.rep.hit(if want { "zst:equal" } else { "zst:unequal" });
                }
            }
        }
        z_set_eq(true);
        if ledger::viol_total() > 0 {
            self.cx.rep.absorb_violations("C14", &|| vec![format!("zero-sized pairs N={} M={}", N, M)]);
        }
    }

    /// maps whose VALUE type is zero-sized: equality still goes through `V: PartialEq`
    pub fn zst_values<const N: usize, const M: usize>(&mut self) {
        ledger::set_ctx(self.group, 0, "map==(zero-sized values)");
        for la in 0..=N.min(3) {
            for lb in 0..=M.min(3) {
                for shift in 0..2u32 {
                    self.cx.rep.evaluations += 1;
                    let mut a: Map<u32, NeverEq, N> = Map::new();
                    let mut b: Map<u32, NeverEq, M> = Map::new();
                    let mut c: Map<u32, Unit, N> = Map::new();
                    let mut d: Map<u32, Unit, M> = Map::new();
                    for i in 0..la as u32 {
                        a.insert(i, NeverEq);
                        c.insert(i, Unit);
                    }
                    for i in (0..lb as u32).rev() {
                        b.insert(i + shift, NeverEq);
                        d.insert(i + shift, Unit);
                    }
                    let same_keys = la == lb && (shift == 0 || la == 0);
                    // values that are never equal: only two EMPTY maps are equal
                    let want_never = la == 0 && lb == 0;
                    if (a == b) != want_never || (b == a) != want_never || (a != b) == want_never {
                        v("zero-sized-values", format!("Map<u32,NeverEq,{}> with keys 0..{} vs Map<u32,NeverEq,{}> with keys {}..{}: == is {}, but a value type whose == never holds makes only empty maps equal", N, la, M, shift, lb as u32 + shift, a == b));
                    }
                    if (c == d) != same_keys || (d == c) != same_keys || (c != d) == same_keys {
                        v("zero-sized-values", format!("Map<u32,Unit,{}> with keys 0..{} vs Map<u32,Unit,{}> with keys {}..{}: == is {}, extensionally {}", N, la, M, shift, lb as u32 + shift, c == d, same_keys));
                    }
                    self.cx.rep.hit("zst-values");
                }
            }
        }
        if ledger::viol_total() > 0 {
            self.cx.rep.absorb_violations("C14", &|| vec![format!("zero-sized value types N={} M={}", N, M)]);
        }
    }

    /// containers beyond the 32- / 64-slot marks: b is a permutation of a, or differs from it in ONE value or
    /// ONE key that sits in a high slot of one of the two
    pub fn big_pairs<F: Fam, const N: usize, const M: usize>(&mut self, cases: u64) {
        for i in 0..cases {
            let mut rng: Rng = self.cx.hist_rng(6_000_000 + i * self.cx.shard.1 + self.cx.shard.0 + (N * 1000 + M) as u64);
            ledger::reset();
            ledger::set_ctx(self.group, i as u32, "map==(big)");
            let len = N.min(M) - rng.usize_below(3).min(N.min(M));
            let mut keys: Vec<u32> = (1..=(len as u32 + 5)).collect();
            rng.shuffle(&mut keys);
            // a class neither operand holds otherwise
            let spare = keys[len];
            keys.truncate(len);
            // equal keys of the two operands are different objects with different tags (different bits)
            let mut a: Map<F::K, F::V, N> = Map::new();
            for k in &keys {
                a.insert(F::K::mk(*k, 1), F::V::mk(k * 7));
            }
            let mut kb = keys.clone();
            rng.shuffle(&mut kb);
            let mode = rng.below(4);
            // the entry that differs sits near the END of a's slot order (a high slot)
            let victim = if len > 0 { keys[len - 1 - rng.usize_below(len.min(4))] } else { 0 };
            let mut b: Map<F::K, F::V, M> = Map::new();
            let mut sb: Set<F::K, M> = Set::new();
            let mut sa: Set<F::K, N> = Set::new();
            for k in &keys {
                sa.insert(F::K::mk(*k, 1));
            }
            for k in &kb {
                let (kk, vv) = match mode {
                    1 if *k == victim => (*k, k * 7 + 1),
                    2 if *k == victim => (spare, k * 7),
                    _ => (*k, k * 7),
                };
                b.insert(F::K::mk(kk, 2), F::V::mk(vv));
                sb.insert(F::K::mk(kk, 2));
            }
            if mode == 3 && len > 0 {
                let probe = F::K::mk(victim, 3);
                b.remove::<F::K>(&probe);
                sb.remove::<F::K>(&probe);
            }
            let want = mode == 0 || len == 0;
            let want_set = mode == 0 || mode == 1 || len == 0;
            self.cx.rep.evaluations += 1;
            let got = [a == b, b == a, !(a != b), !(b != a)];
            if got.iter().any(|g| *g != want) {
                v("wrong-answer", format!("Map<{},_,{}> with {} entries vs Map<_,_,{}> ({}): [a==b, b==a, !(a!=b), !(b!=a)] = {:?}, extensionally {}", F::NAME, N, len, M, ["a permutation of it", "one value differs (key in a high slot)", "one key differs (high slot)", "one entry missing"][mode as usize], got, want));
            }
            let gots = [sa == sb, sb == sa, !(sa != sb)];
            if gots.iter().any(|g| *g != want_set) {
                v("wrong-answer", format!("Set<{},{}> with {} elements vs Set<_,{}> (mode {}): [a==b, b==a, !(a!=b)] = {:?}, extensionally {}", F::NAME, N, len, M, mode, gots, want_set));
            }
            self.cx.rep.hit(&format!("big-pair:{}", if want { "equal" } else { "unequal" }));
            if !F::TRACKED { self.cx.rep.hit(&format!("big-pair:{}", F::NAME)); }
            drop((a, b, sa, sb));
            if ledger::viol_total() > 0 {
                self.cx.rep.absorb_violations("C14", &|| vec![format!("big pair fam={} N={} M={} len={} mode={}", F::NAME, N, M, len, mode)]);
            }
        }
    }

    pub fn set_pairs<F: Fam, const N: usize, const M: usize>(&mut self, u: u32) {
        let (si, sn) = self.cx.shard;
        let sa = valued_layouts(u, N, 1);
        let sb = valued_layouts(u, M, 1);
        ledger::reset();
        ledger::set_ctx(self.group, 0, "set==");
        let bs: Vec<Set<F::K, M>> = sb.iter().map(|s| mk_set::<F, M>(s)).collect();
        let bfp: Vec<u64> = bs.iter().map(|m| fp_set::<F, M>(m)).collect();
        for (ia, st_a) in sa.iter().enumerate() {
            self.group += 1;
            if let Some(h) = self.cx.only_hist {
                if h != self.group {
                    continue;
                }
            } else if self.group % sn != si {
                continue;
            }
            let a = mk_set::<F, N>(st_a);
            let afp = fp_set::<F, N>(&a);
            #[allow(clippy::eq_op)]
            if !(a == a) {
                v("not-reflexive", format!("Set<_,{}> {:?} != itself", N, st_a));
            }
            for (ib, st_b) in sb.iter().enumerate() {
                let want = model_eq(st_a, st_b);
                let ab = a == bs[ib];
                let ba = bs[ib] == a;
                self.cx.rep.evaluations += 1;
                if ab != want || ba != want {
                    v(if ab != ba { "asymmetric" } else { "wrong-answer" }, format!("a = Set<_,{}> {:?}, b = Set<_,{}> {:?}: a == b is {}, b == a is {}, extensionally {}", N, st_a, M, st_b, ab, ba, want));
                }
                let (nab, nba) = (a != bs[ib], bs[ib] != a);
                if nab == want || nba == want {
                    v("ne-is-not-the-negation", format!("a = Set<_,{}> {:?}, b = Set<_,{}> {:?}: a != b is {}, b != a is {}, but the sets are extensionally {}", N, st_a, M, st_b, nab, nba, if want { "equal" } else { "unequal" }));
                }
                self.cx.rep.hit(&format!("set:{}", kind(st_a, st_b)));
                if !(st_a.is_empty() && st_b.is_empty()) {
                    let mut f = Fp::new(0x5E0 + (N * 64 + M) as u64);
                    f.add(ia as u64);
                    f.add(ib as u64);
                    self.cx.rep.fps.add(f.get());
                }
            }
            if fp_set::<F, N>(&a) != afp {
                v("operand-changed", format!("Set<_,{}> {:?} was changed by ==", N, st_a));
            }
            drop(a);
            if ledger::viol_total() > 0 {
                self.cx.rep.absorb_violations("C14", &|| vec![format!("set group {}: left operand {:?}", ia, st_a)]);
            }
        }
        for (i, m) in bs.iter().enumerate() {
            if fp_set::<F, M>(m) != bfp[i] {
                v("operand-changed", format!("right operand Set<_,{}> {:?} was changed by ==", M, sb[i]));
            }
        }
        drop(bs);
        if ledger::viol_total() > 0 {
            self.cx.rep.absorb_violations("C14", &|| vec!["right set operands after all comparisons".to_string()]);
        }
        self.cx.rep.hit(&format!("set-space:N={},M={}", N, M));
    }

    /// pairs reached by different random histories that end in the same / nearly the same dictionary
    pub fn random_histories<F: Fam, const N: usize, const M: usize>(&mut self, pairs: u64) {
        for i in 0..pairs {
            let mut rng: Rng = self.cx.hist_rng(5_000_000 + i * self.cx.shard.1 + self.cx.shard.0 + (N * 64 + M) as u64 * 104_729);
            ledger::reset();
            ledger::set_ctx(self.group, i as u32, "map==(histories)");
            let u = (N.min(M) as u32 + 2).max(2);
            let mut a: Map<F::K, F::V, N> = Map::new();
            let mut b: Map<F::K, F::V, M> = Map::new();
            let mut ma: Vec<(u32, u32)> = Vec::new();
            let mut mb: Vec<(u32, u32)> = Vec::new();
            // same multiset of final writes, applied in different orders with extra insert/remove noise
            let steps = rng.usize_below(24) + 2;
            let mut script: Vec<(u32, u32, bool)> = Vec::new();
            for _ in 0..steps {
                script.push((1 + rng.below(u64::from(u)) as u32, rng.below(3) as u32, rng.chance(1, 4)));
            }
            let apply = |ops: &[(u32, u32, bool)], cap: usize, model: &mut Vec<(u32, u32)>, act: &mut dyn FnMut(u32, Option<u32>)| {
                for (c, x, remove) in ops {
                    if *remove {
                        model.retain(|e| e.0 != *c);
                        act(*c, None);
                    } else if model.iter().any(|e| e.0 == *c) {
                        for e in model.iter_mut() {
                            if e.0 == *c {
                                e.1 = *x;
                            }
                        }
                        act(*c, Some(*x));
                    } else if model.len() < cap {
                        model.push((*c, *x));
                        act(*c, Some(*x));
                    }
                }
            };
            apply(&script, N, &mut ma, &mut |c, x| match x {
                Some(x) => {
                    a.insert(F::K::mk(c, 0), F::V::mk(x));
                }
                None => {
                    F::K::with_q(c, |q| a.remove::<<F::K as KeyF>::Q>(q));
                }
            });
            let mut script_b = script.clone();
            if rng.chance(1, 2) {
                // a different path to (usually) the same dictionary: replay, then churn
                let extra: Vec<(u32, u32, bool)> = script.iter().rev().take(3).map(|(c, _, _)| (*c, 7, true)).collect();
                script_b.extend(extra.iter().cloned());
                script_b.extend(script.iter().cloned());
            }
            if rng.chance(1, 3) {
                if let Some(e) = script_b.last_mut() {
                    e.1 = (e.1 + 1) % 3;
                }
            }
            // the second operand is built through every insertion path the crate has (the history of a
            // container includes which entry point wrote each pair); `apply` only lets a write through when
            // the key is present or a slot is free, which is insert_unchecked's contract
            let mut prng: Rng = self.cx.hist_rng(7_700_000 + i * 31 + (N * 64 + M) as u64);
            apply(&script_b, M, &mut mb, &mut |c, x| match x {
                Some(x) => {
                    let (k, val) = (F::K::mk(c, 1), F::V::mk(x));
                    match prng.below(6) {
                        0 => {
                            // SAFETY: key present or len < M (see above)
                            unsafe { b.insert_unchecked(k, val) };
                            self.cx.rep.hit("histories:path:insert_unchecked");
                        }
                        1 => {
                            b.checked_insert(k, val);
                        }
                        2 => {
                            b.insert_key_value(k, val);
                        }
                        3 => match b.entry(k) {
                            micromap::Entry::Occupied(mut o) => {
                                o.insert(val);
                            }
                            micromap::Entry::Vacant(va) => {
                                va.insert(val);
                            }
                        },
                        _ => {
                            b.insert(k, val);
                        }
                    }
                }
                None => {
                    F::K::with_q(c, |q| b.remove::<<F::K as KeyF>::Q>(q));
                }
            });
            let want = model_eq(&ma, &mb);
            let (ab, ba) = (a == b, b == a);
            // reflexivity on history-built operands (a container and itself, a container and its clone)
            #[allow(clippy::eq_op)]
            let (raa, rbb) = (a == a, b == b);
            if !raa || !rbb || (a != a) || (b != b) {
                v("not-reflexive", format!("maps reached by histories: a = {:?} (a == a: {}), b = {:?} (b == b: {})", ma, raa, mb, rbb));
            }
            if (a != b) == want || (b != a) == want {
                v("ne-is-not-the-negation", format!("maps reached by two histories: a = {:?}, b = {:?}: `!=` does not negate the extensional answer {}", ma, mb, want));
            }
            self.cx.rep.evaluations += 1;
            self.cx.rep.hit(if want { "histories:equal" } else { "histories:unequal" });
            if ab != want || ba != want {
                v("wrong-answer", format!("maps reached by two histories: a(N={}) = {:?}, b(M={}) = {:?}: a == b is {}, b == a is {}, extensionally {}", N, ma, M, mb, ab, ba, want));
            }
            drop(a);
            drop(b);
            if ledger::viol_total() > 0 {
                self.cx.rep.absorb_violations("C14", &|| vec![format!("history pair {}: {:?} / {:?}", i, script, script_b)]);
            }
        }
    }
}
