//! Element families: one generic engine, several key/value shapes.

use std::borrow::Borrow;
use std::fmt;
use support::elems::{AKey, AVal, K12, Odd3, Odd6, Class, HKey, HVal, NdKey, NdVal, NzVal, TKey, TVal, Tiny, WClass, Word, Z};

pub trait KeyF: PartialEq + Eq + Sized + Clone + fmt::Debug + fmt::Display + Borrow<Self::Q> + 'static {
    /// borrowed form used for lookups
    type Q: PartialEq + Eq + ?Sized;
    fn mk(class: u32, tag: u32) -> Self;
    fn class(&self) -> u32;
    fn tag(&self) -> u32;
    fn id(&self) -> u64;
    /// the harness looks at a key the API handed out
    fn chk(&self, how: &'static str) -> bool;
    fn with_q<R>(class: u32, f: impl FnOnce(&Self::Q) -> R) -> R;
    /// address of the borrowed form (for address-range checks)
    fn dbg_render(class: u32, tag: u32) -> String;
    fn disp_render(class: u32, tag: u32) -> String;
    /// the class a key made with `mk(class, _)` really has (zero-sized keys are all one class)
    fn norm(class: u32) -> u32 {
        class
    }
    /// per-object serial number where the type has one outside the ledger (defaults to the ledger id)
    fn serial(&self) -> u64 {
        self.id()
    }
    /// the tag a key made with `mk(_, tag)` reports (keys with only a few bits for the tag truncate it)
    fn norm_tag(tag: u32) -> u32 {
        tag
    }
}

pub trait ValF: PartialEq + Sized + Clone + fmt::Debug + fmt::Display + Default + 'static {
    fn mk(payload: u32) -> Self;
    fn payload(&self) -> u32;
    fn set_payload(&mut self, p: u32);
    fn id(&self) -> u64;
    fn chk(&self, how: &'static str) -> bool;
    fn dbg_render(payload: u32) -> String;
    fn disp_render(payload: u32) -> String;
    fn default_payload() -> u32;
    fn serial(&self) -> u64 {
        self.id()
    }
}

pub trait Fam: 'static {
    type K: KeyF;
    type V: ValF;
    const NAME: &'static str;
    /// identity (ids, tags) observable and ledger active
    const TRACKED: bool;
    /// equal keys are distinguishable by their tag (stored-key identity is observable)
    const IDENT: bool = Self::TRACKED;
    /// tags wrap around after this many (0 = never): keys that have only a few bits for a tag
    const TAG_MOD: u32 = 0;
    /// (key clones, value clones) made so far, for families that count `Clone::clone` calls themselves
    fn clone_counts() -> Option<(u64, u64)> {
        None
    }
    /// number of live element objects, for families that count construction / destruction themselves
    fn live_objects() -> Option<i64> {
        None
    }
}

// ---- tracked (and large) -------------------------------------------------------------------

impl<const P: usize> KeyF for TKey<P> {
    type Q = Class;
    fn mk(class: u32, tag: u32) -> Self {
        TKey::new(class, tag)
    }
    fn class(&self) -> u32 {
        self.class
    }
    fn tag(&self) -> u32 {
        self.tag
    }
    fn id(&self) -> u64 {
        self.id
    }
    fn chk(&self, how: &'static str) -> bool {
        self.check(how)
    }
    fn with_q<R>(class: u32, f: impl FnOnce(&Class) -> R) -> R {
        f(&Class(class))
    }
    fn dbg_render(class: u32, tag: u32) -> String {
        format!("K{}#{}", class, tag)
    }
    fn disp_render(class: u32, tag: u32) -> String {
        format!("k{}.{}", class, tag)
    }
}
impl<const P: usize> ValF for TVal<P> {
    fn mk(payload: u32) -> Self {
        TVal::new(payload)
    }
    fn payload(&self) -> u32 {
        self.payload
    }
    fn set_payload(&mut self, p: u32) {
        self.payload = p;
    }
    fn id(&self) -> u64 {
        self.id
    }
    fn chk(&self, how: &'static str) -> bool {
        self.check(how)
    }
    fn dbg_render(payload: u32) -> String {
        format!("V{}", payload)
    }
    fn disp_render(payload: u32) -> String {
        format!("v{}", payload)
    }
    fn default_payload() -> u32 {
        support::elems::DEFAULT_PAYLOAD
    }
}

pub struct Track;
impl Fam for Track {
    type K = TKey<0>;
    type V = TVal<0>;
    const NAME: &'static str = "track";
    const TRACKED: bool = true;
}
pub struct Large;
impl Fam for Large {
    type K = TKey<104>;
    type V = TVal<488>;
    const NAME: &'static str = "large";
    const TRACKED: bool = true;
}

// ---- copy: no distinct borrowed form -------------------------------------------------------

impl KeyF for u32 {
    type Q = u32;
    fn mk(class: u32, _tag: u32) -> Self {
        class
    }
    fn class(&self) -> u32 {
        *self
    }
    fn tag(&self) -> u32 {
        0
    }
    fn id(&self) -> u64 {
        0
    }
    fn chk(&self, _: &'static str) -> bool {
        true
    }
    fn with_q<R>(class: u32, f: impl FnOnce(&u32) -> R) -> R {
        f(&class)
    }
    fn dbg_render(class: u32, _: u32) -> String {
        format!("{:?}", class)
    }
    fn disp_render(class: u32, _: u32) -> String {
        format!("{}", class)
    }
}
impl ValF for u32 {
    fn mk(payload: u32) -> Self {
        payload
    }
    fn payload(&self) -> u32 {
        *self
    }
    fn set_payload(&mut self, p: u32) {
        *self = p;
    }
    fn id(&self) -> u64 {
        0
    }
    fn chk(&self, _: &'static str) -> bool {
        true
    }
    fn dbg_render(payload: u32) -> String {
        format!("{:?}", payload)
    }
    fn disp_render(payload: u32) -> String {
        format!("{}", payload)
    }
    fn default_payload() -> u32 {
        0
    }
}
pub struct Copyf;
impl Fam for Copyf {
    type K = u32;
    type V = u32;
    const NAME: &'static str = "copy";
    const TRACKED: bool = false;
}

// ---- raw: heap-owning std types, for the sanitizers ------------------------------------------

/// class 1 is the EMPTY string: a zero-length `&str` needle is a legal, unusual input
fn raw_key(class: u32) -> String {
    if class == 1 {
        String::new()
    } else if class % 4 == 2 {
        // a rendering well beyond 64 bytes (buffering / chunking thresholds of formatting code)
        format!("key-{:04}{}", class, "-x".repeat(40))
    } else {
        format!("key-{:04}", class)
    }
}
impl KeyF for String {
    type Q = str;
    fn mk(class: u32, _tag: u32) -> Self {
        raw_key(class)
    }
    fn class(&self) -> u32 {
        if self.is_empty() {
            1
        } else {
            self.get(4..8).and_then(|s| s.parse().ok()).unwrap_or(u32::MAX)
        }
    }
    fn tag(&self) -> u32 {
        0
    }
    fn id(&self) -> u64 {
        0
    }
    fn chk(&self, _: &'static str) -> bool {
        self.len() == 8 || self.len() == 88 || self.is_empty()
    }
    fn with_q<R>(class: u32, f: impl FnOnce(&str) -> R) -> R {
        let s = raw_key(class);
        f(s.as_str())
    }
    fn dbg_render(class: u32, _: u32) -> String {
        format!("{:?}", raw_key(class))
    }
    fn disp_render(class: u32, _: u32) -> String {
        raw_key(class)
    }
}
impl ValF for Box<u32> {
    fn mk(payload: u32) -> Self {
        Box::new(payload)
    }
    fn payload(&self) -> u32 {
        **self
    }
    fn set_payload(&mut self, p: u32) {
        **self = p;
    }
    fn id(&self) -> u64 {
        0
    }
    fn chk(&self, _: &'static str) -> bool {
        true
    }
    fn dbg_render(payload: u32) -> String {
        format!("{:?}", payload)
    }
    fn disp_render(payload: u32) -> String {
        format!("{}", payload)
    }
    fn default_payload() -> u32 {
        0
    }
}
pub struct Raw;
impl Fam for Raw {
    type K = String;
    type V = Box<u32>;
    const NAME: &'static str = "raw";
    const TRACKED: bool = false;
}

// ---- heap: heap-owning elements with fault ticks, no ledger (sanitizer variants of C04/C17) ----

impl KeyF for HKey {
    type Q = Class;
    fn mk(class: u32, tag: u32) -> Self {
        HKey::new(class, tag)
    }
    fn class(&self) -> u32 {
        self.class
    }
    fn tag(&self) -> u32 {
        self.tag
    }
    fn id(&self) -> u64 {
        0
    }
    fn chk(&self, _: &'static str) -> bool {
        self.intact()
    }
    fn with_q<R>(class: u32, f: impl FnOnce(&Class) -> R) -> R {
        f(&Class(class))
    }
    fn dbg_render(class: u32, tag: u32) -> String {
        format!("K{}#{}", class, tag)
    }
    fn disp_render(class: u32, tag: u32) -> String {
        format!("k{}.{}", class, tag)
    }
}
impl ValF for HVal {
    fn mk(payload: u32) -> Self {
        HVal::new(payload)
    }
    fn payload(&self) -> u32 {
        self.payload
    }
    fn set_payload(&mut self, p: u32) {
        self.set(p);
    }
    fn id(&self) -> u64 {
        0
    }
    fn chk(&self, _: &'static str) -> bool {
        self.intact()
    }
    fn dbg_render(payload: u32) -> String {
        format!("V{}", payload)
    }
    fn disp_render(payload: u32) -> String {
        format!("v{}", payload)
    }
    fn default_payload() -> u32 {
        support::elems::DEFAULT_PAYLOAD
    }
}
pub struct Heap;
impl Fam for Heap {
    type K = HKey;
    type V = HVal;
    const NAME: &'static str = "heap";
    const TRACKED: bool = false;
}

// ---- zst: zero-sized key (all keys equal), for Set<Z, N> ------------------------------------------

impl KeyF for Z {
    type Q = Z;
    fn mk(_class: u32, _tag: u32) -> Self {
        Z::new()
    }
    fn class(&self) -> u32 {
        1
    }
    fn tag(&self) -> u32 {
        0
    }
    fn id(&self) -> u64 {
        0
    }
    fn chk(&self, _: &'static str) -> bool {
        true
    }
    fn with_q<R>(_class: u32, f: impl FnOnce(&Z) -> R) -> R {
        let z = Z::new();
        f(&z)
    }
    fn dbg_render(_: u32, _: u32) -> String {
        "Z".to_string()
    }
    fn disp_render(_: u32, _: u32) -> String {
        "z".to_string()
    }
    fn norm(_: u32) -> u32 {
        1
    }
}
pub struct Zst;
impl Fam for Zst {
    type K = Z;
    type V = u32;
    const NAME: &'static str = "zst";
    const TRACKED: bool = false;
    fn live_objects() -> Option<i64> {
        Some(support::elems::z_live())
    }
}

// ---- nodrop: no drop glue, observable Clone -----------------------------------------------------

impl KeyF for NdKey {
    type Q = Class;
    fn mk(class: u32, tag: u32) -> Self {
        NdKey::new(class, tag)
    }
    fn class(&self) -> u32 {
        self.class
    }
    fn tag(&self) -> u32 {
        self.tag
    }
    fn id(&self) -> u64 {
        0
    }
    fn serial(&self) -> u64 {
        self.serial
    }
    fn chk(&self, _: &'static str) -> bool {
        true
    }
    fn with_q<R>(class: u32, f: impl FnOnce(&Class) -> R) -> R {
        f(&Class(class))
    }
    fn dbg_render(class: u32, tag: u32) -> String {
        format!("K{}#{}", class, tag)
    }
    fn disp_render(class: u32, tag: u32) -> String {
        format!("k{}.{}", class, tag)
    }
}
impl ValF for NdVal {
    fn mk(payload: u32) -> Self {
        NdVal::new(payload)
    }
    fn payload(&self) -> u32 {
        self.payload
    }
    fn set_payload(&mut self, p: u32) {
        self.payload = p;
    }
    fn id(&self) -> u64 {
        0
    }
    fn serial(&self) -> u64 {
        self.serial
    }
    fn chk(&self, _: &'static str) -> bool {
        true
    }
    fn dbg_render(payload: u32) -> String {
        format!("V{}", payload)
    }
    fn disp_render(payload: u32) -> String {
        format!("v{}", payload)
    }
    fn default_payload() -> u32 {
        0
    }
}
pub struct NoDrop;
impl Fam for NoDrop {
    type K = NdKey;
    type V = NdVal;
    const NAME: &'static str = "nodrop";
    const TRACKED: bool = false;
    const IDENT: bool = true;
    fn clone_counts() -> Option<(u64, u64)> {
        Some(support::elems::nd_clone_counts())
    }
}

// ---- tiny: one-byte key with its own `==` (class = low 5 bits, tag = high 3 bits), no drop glue ----------

impl KeyF for Tiny {
    type Q = Tiny;
    fn mk(class: u32, tag: u32) -> Self {
        Tiny::new(class, tag)
    }
    fn class(&self) -> u32 {
        Tiny::class(self)
    }
    fn tag(&self) -> u32 {
        Tiny::tag(self)
    }
    fn id(&self) -> u64 {
        0
    }
    fn chk(&self, _: &'static str) -> bool {
        true
    }
    fn norm_tag(tag: u32) -> u32 {
        tag & 7
    }
    fn with_q<R>(class: u32, f: impl FnOnce(&Tiny) -> R) -> R {
        f(&Tiny::new(class, 0))
    }
    fn dbg_render(class: u32, tag: u32) -> String {
        format!("T{}#{}", class, tag)
    }
    fn disp_render(class: u32, tag: u32) -> String {
        format!("t{}.{}", class, tag)
    }
}
pub struct TinyF;
impl Fam for TinyF {
    type K = Tiny;
    type V = u32;
    const NAME: &'static str = "tiny";
    const TRACKED: bool = false;
    const IDENT: bool = true;
    const TAG_MOD: u32 = 7;
}

// ---- word: four-byte key with its own `==` (class = low 16 bits, tag = high 16 bits) whose borrowed form is
// ---- the same word under another type; value with a niche (Option<NonZeroU32>) -------------------------------

impl KeyF for Word {
    type Q = WClass;
    fn mk(class: u32, tag: u32) -> Self {
        Word::new(class, tag)
    }
    fn class(&self) -> u32 {
        Word::class(self)
    }
    fn tag(&self) -> u32 {
        Word::tag(self)
    }
    fn id(&self) -> u64 {
        0
    }
    fn chk(&self, _: &'static str) -> bool {
        true
    }
    fn norm_tag(tag: u32) -> u32 {
        tag & 0xFFFF
    }
    fn with_q<R>(class: u32, f: impl FnOnce(&WClass) -> R) -> R {
        f(&WClass(class | 0x7FFF_0000))
    }
    fn dbg_render(class: u32, tag: u32) -> String {
        format!("W{}#{}", class, tag)
    }
    fn disp_render(class: u32, tag: u32) -> String {
        format!("w{}.{}", class, tag)
    }
}
impl ValF for NzVal {
    fn mk(payload: u32) -> Self {
        NzVal::new(payload)
    }
    fn payload(&self) -> u32 {
        self.get()
    }
    fn set_payload(&mut self, p: u32) {
        *self = NzVal::new(p);
    }
    fn id(&self) -> u64 {
        0
    }
    fn chk(&self, _: &'static str) -> bool {
        true
    }
    fn dbg_render(payload: u32) -> String {
        format!("N{}", payload)
    }
    fn disp_render(payload: u32) -> String {
        format!("n{}", payload)
    }
    fn default_payload() -> u32 {
        0
    }
}
pub struct WordF;
impl Fam for WordF {
    type K = Word;
    type V = NzVal;
    const NAME: &'static str = "word";
    const TRACKED: bool = false;
    const IDENT: bool = true;
    const TAG_MOD: u32 = 0xFFFE;
}

// ---- align: over-aligned key (64) and value (32), no drop glue -------------------------------------------

impl KeyF for AKey {
    type Q = Class;
    fn mk(class: u32, tag: u32) -> Self {
        AKey { class, tag }
    }
    fn class(&self) -> u32 {
        self.class
    }
    fn tag(&self) -> u32 {
        self.tag
    }
    fn id(&self) -> u64 {
        0
    }
    fn chk(&self, _: &'static str) -> bool {
        (self as *const AKey as usize) % 64 == 0
    }
    fn with_q<R>(class: u32, f: impl FnOnce(&Class) -> R) -> R {
        f(&Class(class))
    }
    fn dbg_render(class: u32, tag: u32) -> String {
        format!("A{}#{}", class, tag)
    }
    fn disp_render(class: u32, tag: u32) -> String {
        format!("a{}.{}", class, tag)
    }
}
impl ValF for AVal {
    fn mk(payload: u32) -> Self {
        AVal(payload)
    }
    fn payload(&self) -> u32 {
        self.0
    }
    fn set_payload(&mut self, p: u32) {
        self.0 = p;
    }
    fn id(&self) -> u64 {
        0
    }
    fn chk(&self, _: &'static str) -> bool {
        (self as *const AVal as usize) % 32 == 0
    }
    fn dbg_render(payload: u32) -> String {
        format!("AV{}", payload)
    }
    fn disp_render(payload: u32) -> String {
        format!("av{}", payload)
    }
    fn default_payload() -> u32 {
        0
    }
}
pub struct AlignF;
impl Fam for AlignF {
    type K = AKey;
    type V = AVal;
    const NAME: &'static str = "align";
    const TRACKED: bool = false;
    const IDENT: bool = true;
}

// ---- odd: three-byte key and six-byte value with alignment 1 (9-byte pairs, 3-byte set elements) --------------

impl KeyF for Odd3 {
    type Q = Odd3;
    fn mk(class: u32, tag: u32) -> Self {
        Odd3::new(class, tag)
    }
    fn class(&self) -> u32 {
        Odd3::class(self)
    }
    fn tag(&self) -> u32 {
        Odd3::tag(self)
    }
    fn id(&self) -> u64 {
        0
    }
    fn chk(&self, _: &'static str) -> bool {
        self.intact()
    }
    fn norm_tag(tag: u32) -> u32 {
        tag & 0xFF
    }
    fn with_q<R>(class: u32, f: impl FnOnce(&Odd3) -> R) -> R {
        f(&Odd3::new(class, 0xEE))
    }
    fn dbg_render(class: u32, tag: u32) -> String {
        format!("O{}#{}", class, tag)
    }
    fn disp_render(class: u32, tag: u32) -> String {
        format!("o{}.{}", class, tag)
    }
}
impl ValF for Odd6 {
    fn mk(payload: u32) -> Self {
        Odd6::new(payload)
    }
    fn payload(&self) -> u32 {
        self.get()
    }
    fn set_payload(&mut self, p: u32) {
        *self = Odd6::new(p);
    }
    fn id(&self) -> u64 {
        0
    }
    fn chk(&self, _: &'static str) -> bool {
        self.intact()
    }
    fn dbg_render(payload: u32) -> String {
        format!("OV{}", payload)
    }
    fn disp_render(payload: u32) -> String {
        format!("ov{}", payload)
    }
    fn default_payload() -> u32 {
        0
    }
}
pub struct OddF;
impl Fam for OddF {
    type K = Odd3;
    type V = Odd6;
    const NAME: &'static str = "odd";
    const TRACKED: bool = false;
    const IDENT: bool = true;
    const TAG_MOD: u32 = 250;
}

// ---- k12: twelve-byte key whose identity tag sits in the trailing four bytes; u32 value ------------------------

impl KeyF for K12 {
    type Q = Class;
    fn mk(class: u32, tag: u32) -> Self {
        K12::new(class, tag)
    }
    fn class(&self) -> u32 {
        self.class
    }
    fn tag(&self) -> u32 {
        self.tag
    }
    fn id(&self) -> u64 {
        0
    }
    fn chk(&self, _: &'static str) -> bool {
        self.fill == 0x1234_5678
    }
    fn with_q<R>(class: u32, f: impl FnOnce(&Class) -> R) -> R {
        f(&Class(class))
    }
    fn dbg_render(class: u32, tag: u32) -> String {
        format!("D{}#{}", class, tag)
    }
    fn disp_render(class: u32, tag: u32) -> String {
        format!("d{}.{}", class, tag)
    }
}
pub struct K12F;
impl Fam for K12F {
    type K = K12;
    type V = u32;
    const NAME: &'static str = "k12";
    const TRACKED: bool = false;
    const IDENT: bool = true;
}

// ---- path: heap-owning key with an UNSIZED borrowed form (`Path`) whose `==` equates values of different
// ---- byte length; equal keys are distinguishable by how they are written (number of separators = tag) ------

/// `PathBuf` under a newtype (it has no `Display`): "dir<class>" + '/' * (1 + tag) + "x".
#[derive(Clone, PartialEq, Eq)]
pub struct PK(pub std::path::PathBuf);
impl Borrow<std::path::Path> for PK {
    fn borrow(&self) -> &std::path::Path {
        self.0.as_path()
    }
}
impl fmt::Debug for PK {
    fn fmt(&self, f: &mut fmt::Formatter<'_>) -> fmt::Result {
        fmt::Debug::fmt(&self.0, f)
    }
}
impl fmt::Display for PK {
    fn fmt(&self, f: &mut fmt::Formatter<'_>) -> fmt::Result {
        write!(f, "{}", self.0.display())
    }
}
fn pk_text(class: u32, tag: u32) -> String {
    format!("dir{}{}x", class, "/".repeat(1 + (tag % 5) as usize))
}
impl KeyF for PK {
    type Q = std::path::Path;
    fn mk(class: u32, tag: u32) -> Self {
        PK(std::path::PathBuf::from(pk_text(class, tag)))
    }
    fn class(&self) -> u32 {
        let s = self.0.to_string_lossy();
        s.get(3..).and_then(|t| t.split('/').next()).and_then(|d| d.parse().ok()).unwrap_or(u32::MAX)
    }
    fn tag(&self) -> u32 {
        (self.0.to_string_lossy().matches('/').count() as u32).saturating_sub(1)
    }
    fn id(&self) -> u64 {
        0
    }
    fn chk(&self, _: &'static str) -> bool {
        let s = self.0.to_string_lossy();
        s.starts_with("dir") && s.ends_with('x')
    }
    fn with_q<R>(class: u32, f: impl FnOnce(&std::path::Path) -> R) -> R {
        // written differently from every stored form: a `.` component and a trailing separator
        let s = format!("dir{}/./x/", class);
        f(std::path::Path::new(&s))
    }
    fn dbg_render(class: u32, tag: u32) -> String {
        format!("{:?}", pk_text(class, tag))
    }
    fn disp_render(class: u32, tag: u32) -> String {
        pk_text(class, tag)
    }
    fn norm_tag(tag: u32) -> u32 {
        tag % 5
    }
}
pub struct PathF;
impl Fam for PathF {
    type K = PK;
    type V = Box<u32>;
    const NAME: &'static str = "path";
    const TRACKED: bool = false;
    const IDENT: bool = true;
    const TAG_MOD: u32 = 4;
}
