//! C03 engine: a full container rejects a new key cleanly, in every build profile.
//!
//! For every capacity and element family a container is driven to FULL through a random
//! history (so full maps occur in many slot layouts), then every safe insertion entry point is
//! called once with an absent key (must panic — or return None for `checked_insert` — and
//! change nothing) and once with a present key (must succeed: replace on a full container).
//! Monitors: panic/no-panic oracle, canary frame around the container, whole-container
//! fingerprint (object identities) before/after, ledger for the rejected arguments, continued
//! usability (remove-then-insert), `capacity() == N`, `len() <= N`.  Under ASan / valgrind the
//! container lives alone in an exact-size heap block so that a slot overflow hits a red zone.

use crate::common::Ctx;
use crate::fam::{Fam, KeyF, ValF};
use crate::common::Hinted;
use micromap::{Entry, Map, Set};
use support::elems::{z_live, z_set_eq, Z};
use support::fault::{self, Caught};
use support::frame::{exact_box, Frame};
use support::ledger;
use support::rng::{Fp, Rng};

pub const MAP_EPS: [&str; 9] = [
    "insert", "insert_key_value", "checked_insert", "entry.or_insert", "entry.or_insert_with", "entry.or_insert_with_key",
    "entry.or_default", "VacantEntry::insert|OccupiedEntry::insert", "entry.and_modify.or_insert",
];
pub const SET_EPS: [&str; 4] = ["Set::insert", "Set::replace", "Set::extend(one)", "Set::extend(two)"];

/// where the container under test lives
pub enum Holder<C> {
    Framed(Box<Frame<C>>),
    Exact(Box<C>),
}
impl<C> Holder<C> {
    pub fn new(c: C, exact: bool) -> Self {
        if exact {
            Holder::Exact(exact_box(c))
        } else {
            Holder::Framed(Frame::boxed(c))
        }
    }
    pub fn get(&self) -> &C {
        match self {
            Holder::Framed(f) => f.get(),
            Holder::Exact(b) => b,
        }
    }
    pub fn get_mut(&mut self) -> &mut C {
        match self {
            Holder::Framed(f) => f.get_mut(),
            Holder::Exact(b) => b,
        }
    }
    pub fn canaries_ok(&self) -> bool {
        match self {
            Holder::Framed(f) => f.canaries_ok(),
            Holder::Exact(_) => true,
        }
    }
}

pub struct Full<'a> {
    pub cx: &'a mut Ctx,
    pub case_no: u64,
    pub exact: bool,
}

fn v(what: &str, msg: String) {
    let (_, _, op) = ledger::ctx();
    ledger::violation("C03", format!("{}@{}", what, op), msg);
}

type Snap = Vec<(u32, u32, u64, u32, u64)>;

fn snap_map<F: Fam, const N: usize>(m: &Map<F::K, F::V, N>) -> Snap {
    m.iter()
        .map(|(k, x)| {
            k.chk("full-map key");
            x.chk("full-map value");
            (k.class(), k.tag(), k.id(), x.payload(), x.id())
        })
        .collect()
}
fn snap_set<F: Fam, const N: usize>(m: &Set<F::K, N>) -> Snap {
    m.iter()
        .map(|k| {
            k.chk("full-set element");
            (k.class(), k.tag(), k.id(), 0, 0)
        })
        .collect()
}

impl<'a> Full<'a> {
    /// drive a map to full through a random history; returns the classes stored
    fn fill_map<F: Fam, const N: usize>(rng: &mut Rng, m: &mut Map<F::K, F::V, N>) {
        let u = N as u32 + 3;
        let mut tag = 0u32;
        let churn = rng.usize_below(3 * N + 1);
        let mut steps = 0;
        while m.len() < N || steps < churn {
            steps += 1;
            let c = 1 + rng.below(u64::from(u)) as u32;
            tag += 1;
            if m.len() == N || (rng.chance(1, 4) && steps < churn) {
                // remove something (first / last / random position)
                let keys: Vec<u32> = m.keys().map(|k| k.class()).collect();
                if !keys.is_empty() {
                    let victim = match rng.below(3) {
                        0 => keys[0],
                        1 => keys[keys.len() - 1],
                        _ => keys[rng.usize_below(keys.len())],
                    };
                    F::K::with_q(victim, |q| m.remove::<<F::K as KeyF>::Q>(q));
                }
            } else {
                let present = F::K::with_q(c, |q| m.contains_key::<<F::K as KeyF>::Q>(q));
                if present || m.len() < N {
                    m.insert(F::K::mk(c, tag), F::V::mk(5000 + tag));
                }
            }
            if steps > 40 * (N + 1) {
                break;
            }
        }
        // top up deterministically
        let mut c = 1;
        while m.len() < N {
            let present = F::K::with_q(c, |q| m.contains_key::<<F::K as KeyF>::Q>(q));
            if !present {
                tag += 1;
                m.insert(F::K::mk(c, tag), F::V::mk(5000 + tag));
            }
            c += 1;
        }
    }

    /// one full map state x every entry point x {absent, present}
    pub fn map_state<F: Fam, const N: usize>(&mut self, hist: u64) {
        let mut rng: Rng = self.cx.hist_rng(hist * 1000 + N as u64);
        ledger::reset();
        self.case_no += 1;
        ledger::set_ctx(self.case_no, 0, "fill");
        let mut m: Map<F::K, F::V, N> = Map::new();
        Self::fill_map::<F, N>(&mut rng, &mut m);
        let mut h = Holder::new(m, self.exact);
        let absent = if N <= 16 { 20 + rng.below(10) as u32 } else { 900 + rng.below(50) as u32 };
        let stored: Vec<u32> = h.get().keys().map(|k| k.class()).collect();
        let mut fp = Fp::new(0xF011 + N as u64);
        for c in &stored {
            fp.add(u64::from(*c));
        }
        fp.add(support::rng::hash_str(F::NAME));
        fp.add(hist);
        self.cx.rep.fps.add(fp.get());
        for ep in 0..MAP_EPS.len() {
            let name = MAP_EPS[ep];
            for present in [false, true] {
                if present && stored.is_empty() {
                    continue;
                }
                let kc = if present {
                    match rng.below(3) {
                        0 => stored[0],
                        1 => stored[stored.len() - 1],
                        _ => stored[rng.usize_below(stored.len())],
                    }
                } else {
                    absent
                };
                ledger::set_ctx(self.case_no, ep as u32, name);
                self.cx.rep.evaluations += 1;
                let descr = format!("full Map<_,_,{}> fam={} slots={:?} {}({} key class {})", N, F::NAME, h.get().keys().map(|k| k.class()).collect::<Vec<_>>(), name, if present { "present" } else { "absent" }, kc);
                let before = snap_map::<F, N>(h.get());
                let alive_before = ledger::alive_count();
                let m = h.get_mut();
                let mut replaced_id = 0u64;
                // Ok(true) = "returned, reporting success", Ok(false) = checked_insert's None
                let r: Caught<bool> = fault::catch(|| {
                    let k = F::K::mk(kc, 7000);
                    let val = F::V::mk(7001);
                    match ep {
                        0 => {
                            let o = m.insert(k, val);
                            replaced_id = o.as_ref().map_or(0, |x| x.id());
                            true
                        }
                        1 => {
                            let o = m.insert_key_value(k, val);
                            replaced_id = o.as_ref().map_or(0, |x| x.1.id());
                            true
                        }
                        2 => match m.checked_insert(k, val) {
                            None => false,
                            Some(o) => {
                                replaced_id = o.as_ref().map_or(0, |x| x.id());
                                true
                            }
                        },
                        3 => {
                            m.entry(k).or_insert(val);
                            true
                        }
                        4 => {
                            m.entry(k).or_insert_with(|| val);
                            true
                        }
                        5 => {
                            m.entry(k).or_insert_with_key(|_| val);
                            true
                        }
                        6 => {
                            drop(val);
                            m.entry(k).or_default();
                            true
                        }
                        7 => {
                            match m.entry(k) {
                                Entry::Vacant(va) => {
                                    va.insert(val);
                                }
                                Entry::Occupied(mut oc) => {
                                    let old = oc.insert(val);
                                    replaced_id = old.id();
                                }
                            }
                            true
                        }
                        _ => {
                            m.entry(k).and_modify(|x| x.set_payload(7002)).or_insert(val);
                            true
                        }
                    }
                });
                self.cx.rep.hit(&format!("{}:{}:N={}", name, if present { "present" } else { "absent" }, if N >= 8 { "8+".to_string() } else { N.to_string() }));
                let after = match fault::catch(|| snap_map::<F, N>(h.get())) {
                    Caught::Ok(a) => a,
                    _ => {
                        v("unusable-afterwards", format!("{}: iterating the container after the call panicked (len() = {}, N = {}, canaries intact: {})", descr, h.get().len(), N, h.canaries_ok()));
                        self.cx.rep.absorb_violations("C03", &|| vec![descr.clone()]);
                        std::mem::forget(h);
                        return;
                    }
                };
                if !h.canaries_ok() {
                    v("canary", format!("{}: memory outside the container was written", descr));
                }
                let (len, cap) = (h.get().len(), h.get().capacity());
                if cap != N || len > N {
                    v("len-capacity", format!("{}: afterwards len() = {}, capacity() = {} (N = {})", descr, len, cap, N));
                }
                if !present {
                    match &r {
                        Caught::Panic(_) if ep != 2 => {}
                        Caught::Ok(false) if ep == 2 => {}
                        Caught::Ok(x) => v("no-panic-on-full", format!("{}: the call returned ({}) instead of {}", descr, x, if ep == 2 { "None" } else { "panicking" })),
                        Caught::Panic(msg) => v("checked_insert-panics", format!("{}: checked_insert panicked: {}", descr, msg)),
                        Caught::Injected(..) => unreachable!(),
                    }
                    if after != before {
                        v("contents-changed", format!("{}: the container changed: before {:?}, after {:?} (class, tag, key id, value, value id)", descr, before, after));
                    }
                    if F::TRACKED && ledger::alive_count() != alive_before {
                        v("rejected-argument-not-destroyed", format!("{}: {} instrumented objects alive before the rejected call, {} after (the rejected key and value must be destroyed exactly once)", descr, alive_before, ledger::alive_count()));
                    }
                } else {
                    match &r {
                        Caught::Ok(true) => {}
                        Caught::Ok(false) => v("replace-on-full-refused", format!("{}: checked_insert returned None for a present key", descr)),
                        Caught::Panic(msg) => v("replace-on-full-panics", format!("{}: replacing the value of a present key on a full container panicked: {}", descr, msg)),
                        Caught::Injected(..) => unreachable!(),
                    }
                    // same keys as before (as classes), same length
                    let mut a: Vec<u32> = after.iter().map(|e| e.0).collect();
                    let mut b: Vec<u32> = before.iter().map(|e| e.0).collect();
                    a.sort_unstable();
                    b.sort_unstable();
                    if a != b {
                        v("contents-changed", format!("{}: the key set changed from {:?} to {:?}", descr, b, a));
                    }
                    // "replacing the VALUE of a key that is already present": the stored key objects stay
                    // (insert_key_value is the one entry point documented to store the offered key)
                    if ep != 1 {
                        let mut ka: Vec<(u32, u32, u64)> = after.iter().map(|e| (e.0, e.1, e.2)).collect();
                        let mut kb: Vec<(u32, u32, u64)> = before.iter().map(|e| (e.0, e.1, e.2)).collect();
                        ka.sort_unstable();
                        kb.sort_unstable();
                        if ka != kb {
                            v("key-object-replaced-on-full", format!("{}: the stored key objects changed: before {:?}, after {:?} (class, tag, key id)", descr, kb, ka));
                        }
                    }
                    if F::TRACKED && ledger::alive_count() != alive_before {
                        v("ownership", format!("{}: {} objects alive before, {} after a replace on a full map (old value / supplied key must be destroyed once)", descr, alive_before, ledger::alive_count()));
                    }
                }
                let _ = replaced_id;
                // stays usable: remove one entry, insert a new key, must succeed
                if N > 0 {
                    let victim = h.get().keys().next().map(|k| k.class());
                    if let Some(vc) = victim {
                        let m = h.get_mut();
                        let ok = fault::catch(|| {
                            let removed = F::K::with_q(vc, |q| m.remove::<<F::K as KeyF>::Q>(q)).is_some();
                            let ins = m.insert(F::K::mk(vc, 7100), F::V::mk(7101)).is_none();
                            removed && ins && m.len() == N
                        });
                        if !matches!(ok, Caught::Ok(true)) {
                            v("unusable-afterwards", format!("{}: remove-then-insert on the container afterwards failed", descr));
                        }
                    }
                }
                if ledger::viol_total() > 0 {
                    self.cx.rep.absorb_violations("C03", &|| vec![descr.clone()]);
                }
            }
        }
        if self.cx.rep.samples.len() < 3 {
            self.cx.rep.sample(format!("full Map<_,_,{}> fam={} slots={:?}: {} entry points x absent/present key, then remove+insert", N, F::NAME, stored, MAP_EPS.len()));
        }
        drop(h);
        if F::TRACKED && ledger::alive_count() != 0 {
            ledger::violation("C03", "leak@drop", format!("{} objects alive after the full map was dropped", ledger::alive_count()));
            self.cx.rep.absorb_violations("C03", &|| vec!["final drop".to_string()]);
        }
    }

    pub fn set_state<F: Fam, const N: usize>(&mut self, hist: u64) {
        let mut rng: Rng = self.cx.hist_rng(hist * 1000 + 500 + N as u64);
        ledger::reset();
        self.case_no += 1;
        ledger::set_ctx(self.case_no, 0, "fill");
        // reuse the map filler through a temporary map, then move the keys over in slot order
        let mut tmp: Map<F::K, F::V, N> = Map::new();
        Self::fill_map::<F, N>(&mut rng, &mut tmp);
        let mut s: Set<F::K, N> = Set::new();
        for (k, _) in tmp {
            s.insert(k);
        }
        let mut h = Holder::new(s, self.exact);
        let stored: Vec<u32> = h.get().iter().map(|k| k.class()).collect();
        let absent = if N <= 16 { 20 + rng.below(10) as u32 } else { 900 + rng.below(50) as u32 };
        for ep in 0..SET_EPS.len() {
            let name = SET_EPS[ep];
            for present in [false, true] {
                if present && stored.is_empty() {
                    continue;
                }
                let kc = if present { stored[rng.usize_below(stored.len())] } else { absent };
                ledger::set_ctx(self.case_no, ep as u32, name);
                self.cx.rep.evaluations += 1;
                let descr = format!("full Set<_,{}> fam={} slots={:?} {}({} element class {})", N, F::NAME, stored, name, if present { "present" } else { "absent" }, kc);
                let before = snap_set::<F, N>(h.get());
                let alive_before = ledger::alive_count();
                let s = h.get_mut();
                let r: Caught<()> = fault::catch(|| match ep {
                    0 => {
                        s.insert(F::K::mk(kc, 7000));
                    }
                    1 => {
                        let o = s.replace(F::K::mk(kc, 7000));
                        drop(o);
                    }
                    2 => s.extend(vec![F::K::mk(kc, 7000)]),
                    _ => {
                        // a present element first, then the element under test
                        let mut items = Vec::new();
                        if let Some(c) = stored.first() {
                            items.push(F::K::mk(*c, 7003));
                        }
                        items.push(F::K::mk(kc, 7000));
                        s.extend(items);
                    }
                });
                self.cx.rep.hit(&format!("{}:{}:N={}", name, if present { "present" } else { "absent" }, if N >= 8 { "8+".to_string() } else { N.to_string() }));
                let after = match fault::catch(|| snap_set::<F, N>(h.get())) {
                    Caught::Ok(a) => a,
                    _ => {
                        v("unusable-afterwards", format!("{}: iterating the set after the call panicked (len() = {}, N = {})", descr, h.get().len(), N));
                        self.cx.rep.absorb_violations("C03", &|| vec![descr.clone()]);
                        std::mem::forget(h);
                        return;
                    }
                };
                if !h.canaries_ok() {
                    v("canary", format!("{}: memory outside the container was written", descr));
                }
                if h.get().capacity() != N || h.get().len() > N {
                    v("len-capacity", format!("{}: afterwards len() = {}, capacity() = {}", descr, h.get().len(), h.get().capacity()));
                }
                if !present {
                    match &r {
                        Caught::Panic(_) => {}
                        Caught::Ok(()) => v("no-panic-on-full", format!("{}: the call returned instead of panicking", descr)),
                        Caught::Injected(..) => unreachable!(),
                    }
                    if after != before {
                        v("contents-changed", format!("{}: the set changed: before {:?}, after {:?}", descr, before, after));
                    }
                } else if let Caught::Panic(msg) = &r {
                    v("present-element-panics", format!("{}: supplying an element that is already present panicked on a full set: {}", descr, msg));
                } else {
                    let mut a: Vec<u32> = after.iter().map(|e| e.0).collect();
                    let mut b: Vec<u32> = before.iter().map(|e| e.0).collect();
                    a.sort_unstable();
                    b.sort_unstable();
                    if a != b {
                        v("contents-changed", format!("{}: the element set changed from {:?} to {:?}", descr, b, a));
                    }
                }
                if F::TRACKED && ledger::alive_count() != alive_before {
                    v("rejected-argument-not-destroyed", format!("{}: {} instrumented objects alive before the call, {} after", descr, alive_before, ledger::alive_count()));
                }
                if ledger::viol_total() > 0 {
                    self.cx.rep.absorb_violations("C03", &|| vec![descr.clone()]);
                }
            }
        }
        drop(h);
    }

    /// collect / From with more distinct keys than N (no container exists beforehand)
    pub fn collect_overflow<F: Fam, const N: usize>(&mut self, hist: u64) {
        let mut rng: Rng = self.cx.hist_rng(hist * 1000 + 900 + N as u64);
        ledger::reset();
        self.case_no += 1;
        let extra = 1 + rng.usize_below(2);
        let mut classes: Vec<u32> = (1..=(N + extra) as u32).collect();
        rng.shuffle(&mut classes);
        // sprinkle repeats of already supplied keys before the overflowing one
        let mut seq: Vec<u32> = Vec::new();
        for (i, c) in classes.iter().enumerate() {
            seq.push(*c);
            if i > 0 && rng.chance(1, 3) {
                seq.push(classes[rng.usize_below(i)]);
            }
        }
        for (name, is_set) in [("Map::from_iter(overflow)", false), ("Set::from_iter(overflow)", true)] {
            ledger::set_ctx(self.case_no, 0, name);
            self.cx.rep.evaluations += 1;
            self.cx.rep.hit(&format!("{}:N={}", name, if N >= 8 { "8+".to_string() } else { N.to_string() }));
            // the source's size_hint takes every shape, including lying ones: whatever it claims, the
            // (N+1)-th distinct key must be rejected by a panic and nothing may be written past the array
            let mode = rng.usize_below(crate::common::HINT_MODES.len()) as u8;
            self.cx.rep.hit(&format!("overflow-source-hint:{}", crate::common::HINT_MODES[mode as usize]));
            let mut holder_ok = true;
            let r = if is_set {
                let items: Vec<F::K> = seq.iter().enumerate().map(|(i, c)| F::K::mk(*c, i as u32)).collect();
                if rng.chance(1, 2) {
                    fault::catch(|| {
                        let s: Set<F::K, N> = Hinted { it: items.into_iter(), mode }.collect();
                        drop(s);
                    })
                } else {
                    // Set::extend into an (empty) set that sits between canaries
                    let mut h = Holder::new(Set::<F::K, N>::new(), self.exact);
                    let res = fault::catch(|| h.get_mut().extend(Hinted { it: items.into_iter(), mode }));
                    holder_ok = h.canaries_ok() && h.get().len() <= N;
                    if holder_ok {
                        drop(h);
                    } else {
                        std::mem::forget(h);
                    }
                    res
                }
            } else {
                let items: Vec<(F::K, F::V)> = seq.iter().enumerate().map(|(i, c)| (F::K::mk(*c, i as u32), F::V::mk(i as u32))).collect();
                fault::catch(|| {
                    let m: Map<F::K, F::V, N> = Hinted { it: items.into_iter(), mode }.collect();
                    drop(m);
                })
            };
            if !holder_ok {
                v("canary", format!("{} with N={} items {:?} source hint {}: memory outside the set was written or len() exceeds N", name, N, seq, crate::common::HINT_MODES[mode as usize]));
            }
            if !r.panicked() {
                v("no-panic-on-full", format!("{} with N={} and item classes {:?} ({} distinct), source size_hint {} returned instead of panicking", name, N, seq, N + extra, crate::common::HINT_MODES[mode as usize]));
                // a container that swallowed more than N keys is not one whose destructor we want to run
            }
            if F::TRACKED && ledger::alive_count() != 0 {
                v("leak-after-overflow", format!("{} N={} items {:?}: {} objects alive after the panic unwound (items must be destroyed exactly once)", name, N, seq, ledger::alive_count()));
            }
            if ledger::viol_total() > 0 {
                self.cx.rep.absorb_violations("C03", &|| vec![format!("{} N={} items {:?}", name, N, seq)]);
            }
        }
    }

    /// collect with MORE THAN N items but at most N distinct keys: repeats only replace values of keys that
    /// are already present, which must succeed however full the container is
    pub fn collect_fits<F: Fam, const N: usize>(&mut self, hist: u64) {
        if N == 0 {
            return;
        }
        let mut rng: Rng = self.cx.hist_rng(hist * 1000 + 950 + N as u64);
        ledger::reset();
        self.case_no += 1;
        let mut classes: Vec<u32> = (1..=N as u32).collect();
        rng.shuffle(&mut classes);
        let mut seq: Vec<u32> = classes.clone();
        for _ in 0..(1 + rng.usize_below(N + 2)) {
            seq.insert(rng.usize_below(seq.len() + 1).max(1), classes[rng.usize_below(N)]);
        }
        for (name, is_set) in [("Map::from_iter(repeats beyond N)", false), ("Set::from_iter(repeats beyond N)", true)] {
            ledger::set_ctx(self.case_no, 0, name);
            self.cx.rep.evaluations += 1;
            self.cx.rep.hit(&format!("{}:N={}", name, if N >= 8 { "8+".to_string() } else { N.to_string() }));
            let (r, len) = if is_set {
                let items: Vec<F::K> = seq.iter().enumerate().map(|(i, c)| F::K::mk(*c, i as u32)).collect();
                let mut len = 0;
                let mode = rng.usize_below(4) as u8; // honest hint shapes only: the sequence must be accepted
                let r = fault::catch(|| {
                    let s: Set<F::K, N> = Hinted { it: items.into_iter(), mode }.collect();
                    len = s.len();
                });
                (r, len)
            } else {
                let items: Vec<(F::K, F::V)> = seq.iter().enumerate().map(|(i, c)| (F::K::mk(*c, i as u32), F::V::mk(i as u32))).collect();
                let mut len = 0;
                let mode = rng.usize_below(4) as u8;
                let r = fault::catch(|| {
                    let m: Map<F::K, F::V, N> = Hinted { it: items.into_iter(), mode }.collect();
                    len = m.len();
                });
                (r, len)
            };
            match r {
                Caught::Ok(()) => {
                    if len != N {
                        v("contents-changed", format!("{} with N={} and item classes {:?} built {} entries instead of {}", name, N, seq, len, N));
                    }
                }
                Caught::Panic(msg) => v("replace-on-full-panics", format!("{} with N={} and item classes {:?} ({} items, {} distinct keys) panicked ({}) although every item beyond the first N distinct ones only replaces a present key", name, N, seq, seq.len(), N, msg)),
                Caught::Injected(..) => unreachable!(),
            }
            if F::TRACKED && ledger::alive_count() != 0 {
                v("leak@drop", format!("{} N={} items {:?}: {} objects alive after everything was dropped", name, N, seq, ledger::alive_count()));
            }
            if ledger::viol_total() > 0 {
                self.cx.rep.absorb_violations("C03", &|| vec![format!("{} N={} items {:?}", name, N, seq)]);
            }
        }
    }

    /// zero-sized key and value: capacity is enforced by N alone
    pub fn zst<const N: usize>(&mut self) {
        self.case_no += 1;
        ledger::set_ctx(self.case_no, 0, "zst");
        let live0 = z_live();
        z_set_eq(false); // all keys different: every insert appends
        let mut h = Holder::new(Map::<Z, (), N>::new(), self.exact);
        for _ in 0..N {
            h.get_mut().insert(Z::new(), ());
        }
        for ep in 0..4 {
            self.cx.rep.evaluations += 1;
            let m = h.get_mut();
            let r: Caught<bool> = fault::catch(|| match ep {
                0 => {
                    m.insert(Z::new(), ());
                    true
                }
                1 => {
                    m.insert_key_value(Z::new(), ());
                    true
                }
                2 => m.checked_insert(Z::new(), ()).is_some(),
                _ => {
                    m.entry(Z::new()).or_insert(());
                    true
                }
            });
            let ok = match (&r, ep) {
                (Caught::Ok(false), 2) => true,
                (Caught::Panic(_), e) if e != 2 => true,
                _ => false,
            };
            if !ok {
                v("no-panic-on-full", format!("zero-sized elements, N={}: entry point #{} accepted a new key on a full map", N, ep));
            }
            if h.get().len() != N || h.get().iter().count() != N || !h.canaries_ok() {
                v("contents-changed", format!("zero-sized elements, N={}: len() = {} after a rejected insert", N, h.get().len()));
            }
            if z_live() - live0 != N as i64 {
                v("rejected-argument-not-destroyed", format!("zero-sized elements, N={}: {} keys alive, {} stored", N, z_live() - live0, N));
            }
            self.cx.rep.hit(&format!("zst:absent:N={}", N));
        }
        z_set_eq(true); // all keys equal: a present key on a full map replaces
        if N > 0 {
            self.cx.rep.evaluations += 1;
            let m = h.get_mut();
            let r = fault::catch(|| m.insert(Z::new(), ()));
            if !matches!(r, Caught::Ok(Some(()))) {
                v("replace-on-full-panics", format!("zero-sized elements, N={}: insert of an equal key into a full map did not replace", N));
            }
            self.cx.rep.hit(&format!("zst:present:N={}", N));
        }
        drop(h);
        if z_live() != live0 {
            v("leak@drop", format!("zero-sized elements, N={}: {} keys alive after the drop", N, z_live() - live0));
        }
        if ledger::viol_total() > 0 {
            self.cx.rep.absorb_violations("C03", &|| vec![format!("zero-sized key/value, N={}", N)]);
        }
    }

    #[allow(deprecated)]
    pub fn with_capacity<const N: usize>(&mut self) {
        self.case_no += 1;
        ledger::set_ctx(self.case_no, 0, "with_capacity");
        for c in [0usize, 1, N, N + 1, 2 * N + 3] {
            self.cx.rep.evaluations += 1;
            let r = fault::catch(|| Map::<u32, u32, N>::with_capacity(c).capacity());
            match (r, c == N) {
                (Caught::Ok(cap), true) if cap == N => {}
                (Caught::Panic(_), false) => {}
                (r, _) => v("with_capacity", format!("Map::<_,_,{}>::with_capacity({}) {}", N, c, if r.panicked() { "panicked" } else { "returned" })),
            }
            self.cx.rep.hit("with_capacity");
        }
        if ledger::viol_total() > 0 {
            self.cx.rep.absorb_violations("C03", &|| vec![format!("with_capacity N={}", N)]);
        }
    }
}
