//! C17 engine: keys whose `==` / `Borrow` misbehave (non-reflexive, asymmetric, random,
//! always-true, always-false, flip-flop; Borrow pointing at a different field than `==` uses).
//! Only SAFETY is monitored — wrong answers, duplicate keys and panics are all accepted:
//!   * ownership ledger: no double drop, no use of a dead / uninitialised slot, and (since no
//!     user panic is injected) exactly-once destruction: at every quiescent point each live
//!     object is one that iteration of a container yields, and none is alive after the drop;
//!   * `len() <= capacity()`, `iter().count() == len()`;
//!   * references from `get_disjoint_mut` pairwise distinct (and used together, for Miri);
//!   * canary frame intact.
//! There is no reference model in this engine.

use crate::common::Ctx;
use crate::fam::{Fam, KeyF, ValF};
use micromap::{Entry, Map, Set};
use support::elems::{adv_reset, adv_set, adv_stats, EQ_MODES};
use support::fault::{self, Caught};
use support::frame::{addr_of, Frame};
use support::ledger;
use support::rng::{Fp, Rng};

pub const OPS: [&str; 30] = [
    "insert", "insert_key_value", "checked_insert", "remove(q)", "remove(k)", "remove_entry", "lookups", "get_mut", "index",
    "retain", "clear", "drain", "entry.or_insert", "entry.or_default", "entry.and_modify.or_insert_with", "entry.occupied-ops",
    "get_disjoint_mut(2)", "get_disjoint_mut(3)", "get_disjoint_mut(6)", "clone+eq", "into_iter(clone)", "from_iter", "fmt",
    "set.insert", "set.replace", "set.remove|take", "set.retain", "set.extend", "set.algebra", "set.sub+predicates",
];

pub struct Liar<'a> {
    pub cx: &'a mut Ctx,
    pub failed: bool,
    pub panics: u64,
}

fn v(what: &str, msg: String) {
    let (_, _, op) = ledger::ctx();
    ledger::violation("C17", format!("{}@{}", what, op), msg);
}

macro_rules! lookup {
    ($F:ty, $class:expr, $byq:expr, |$q:ident| $body:expr) => {
        if $byq {
            #[allow(unused_macros)]
            macro_rules! QT { () => { <<$F as Fam>::K as KeyF>::Q } }
            <<$F as Fam>::K as KeyF>::with_q($class, |$q| $body)
        } else {
            #[allow(unused_macros)]
            macro_rules! QT { () => { <$F as Fam>::K } }
            let probe = <<$F as Fam>::K as KeyF>::mk($class, 0xFFFF);
            let $q = &probe;
            $body
        }
    };
}

impl<'a> Liar<'a> {
    /// safety invariants of all live containers at a quiescent point
    fn quiescent<F: Fam, const N: usize>(&mut self, m: &Frame<Map<F::K, F::V, N>>, s: &Frame<Set<F::K, N>>, t: &Frame<Set<F::K, N>>, whr: &str) {
        let mut objects = 0usize;
        if !m.canaries_ok() || !s.canaries_ok() || !t.canaries_ok() {
            v("canary", format!("{}: memory outside a container was written", whr));
        }
        let r = fault::catch(|| {
            let mut problems: Vec<String> = Vec::new();
            let mm = m.get();
            if mm.len() > mm.capacity() || mm.capacity() != N {
                problems.push(format!("map len() = {} > capacity() = {}", mm.len(), mm.capacity()));
            }
            let mut c = 0usize;
            for (k, x) in mm.iter() {
                c += 1;
                if c > N + 2 {
                    break;
                }
                if !(k.chk("iter key") & x.chk("iter value")) {
                    problems.push("map iteration yields a dead, uninitialised or torn element".into());
                }
            }
            if c != mm.len() {
                problems.push(format!("map len() = {} but iteration yields {}", mm.len(), c));
            }
            let mut total = 2 * c;
            for (name, ss) in [("set", s.get()), ("second set", t.get())] {
                if ss.len() > ss.capacity() || ss.capacity() != N {
                    problems.push(format!("{} len() = {} > capacity() = {}", name, ss.len(), ss.capacity()));
                }
                let mut c = 0usize;
                for k in ss.iter() {
                    c += 1;
                    if c > N + 2 {
                        break;
                    }
                    if !k.chk("set iter element") {
                        problems.push(format!("{} iteration yields a dead, uninitialised or torn element", name));
                    }
                }
                if c != ss.len() {
                    problems.push(format!("{} len() = {} but iteration yields {}", name, ss.len(), c));
                }
                total += c;
            }
            (problems, total)
        });
        match r {
            Caught::Ok((p, total)) => {
                objects = total;
                for x in p {
                    v("malformed", format!("{}: {}", whr, x));
                }
            }
            Caught::Panic(msg) => v("observation-panics", format!("{}: observing len()/iter() panicked: {}", whr, msg)),
            Caught::Injected(..) => unreachable!(),
        }
        if F::TRACKED && ledger::viol_total() == 0 {
            let alive = ledger::alive_count();
            if alive != objects {
                v(if alive > objects { "leak" } else { "destroyed-too-many" }, format!("{}: {} instrumented objects are alive but the containers yield {} on iteration (no user panic was injected, so every object must be stored or destroyed exactly once)", whr, alive, objects));
            }
        }
    }

    pub fn history<F: Fam, const N: usize>(&mut self, hist: u64, mut rng: Rng, max_steps: usize) {
        ledger::reset();
        adv_reset();
        let mode_ix = rng.usize_below(EQ_MODES.len());
        let mode = EQ_MODES[mode_ix];
        let borrow_alt = rng.chance(1, 5);
        let u = N as u32 + 2;
        let mut m: Box<Frame<Map<F::K, F::V, N>>> = Frame::boxed(Map::new());
        let mut s: Box<Frame<Set<F::K, N>>> = Frame::boxed(Set::new());
        let mut t: Box<Frame<Set<F::K, N>>> = Frame::boxed(Set::new());
        let steps = rng.length(8, max_steps);
        let mut ops: Vec<String> = vec![format!("liar history {} fam={} N={} eq-mode={:?} borrow-alt={}", hist, F::NAME, N, mode, borrow_alt)];
        let mut tag = 0u32;
        let light = self.cx.args.flag("light");
        adv_set(mode, rng.next(), borrow_alt);
        for step in 0..steps {
            let op = rng.usize_below(OPS.len());
            let name = OPS[op];
            ledger::set_ctx(hist, step as u32 + 1, name);
            let c1 = 1 + rng.below(u64::from(u)) as u32;
            let c2 = 1 + rng.below(u64::from(u)) as u32;
            let c3 = 1 + rng.below(u64::from(u)) as u32;
            let byq = rng.chance(1, 2);
            tag += 1;
            let r7 = rng.next();
            if !light {
                ops.push(format!("{} c=({},{},{}) byq={}", name, c1, c2, c3, byq));
            }
            self.cx.rep.evaluations += 1;
            let mut fp = Fp::new(0x11A2 + N as u64);
            fp.add(op as u64);
            fp.add(u64::from(c1));
            fp.add(m.get().len() as u64 * 64 + s.get().len() as u64);
            fp.add(mode_ix as u64 + if borrow_alt { 100 } else { 0 });
            for (k, _) in m.get().iter() {
                fp.add(u64::from(k.class()));
            }
            self.cx.rep.fps.add(fp.get());
            let mk = |c: u32, t: u32| F::K::mk(c, t);
            let mv = |p: u32| F::V::mk(p);
            let r: Caught<()> = {
                let mm = m.get_mut();
                let ss = s.get_mut();
                let tt = t.get_mut();
                fault::catch(|| match op {
                    0 => drop(mm.insert(mk(c1, tag), mv(tag))),
                    1 => drop(mm.insert_key_value(mk(c1, tag), mv(tag))),
                    2 => drop(mm.checked_insert(mk(c1, tag), mv(tag))),
                    3 => drop(lookup!(F, c1, true, |q| mm.remove::<QT!()>(q))),
                    4 => drop(lookup!(F, c1, false, |q| mm.remove::<QT!()>(q))),
                    5 => drop(lookup!(F, c1, byq, |q| mm.remove_entry::<QT!()>(q))),
                    6 => {
                        lookup!(F, c1, byq, |q| {
                            if let Some(x) = mm.get::<QT!()>(q) {
                                x.chk("get");
                            }
                            let _ = mm.contains_key::<QT!()>(q);
                            if let Some((k, x)) = mm.get_key_value::<QT!()>(q) {
                                k.chk("gkv key");
                                x.chk("gkv value");
                            }
                        });
                    }
                    7 => {
                        lookup!(F, c1, byq, |q| {
                            if let Some(x) = mm.get_mut::<QT!()>(q) {
                                x.chk("get_mut");
                                x.set_payload(tag);
                            }
                        });
                    }
                    8 => {
                        lookup!(F, c1, byq, |q| {
                            let x = <Map<F::K, F::V, N> as std::ops::IndexMut<&QT!()>>::index_mut(mm, q);
                            x.chk("index_mut");
                            x.set_payload(tag);
                        });
                    }
                    9 => mm.retain(|k, x| {
                        k.chk("retain key");
                        x.chk("retain value");
                        (r7 >> (k.class() % 60)) & 1 == 1
                    }),
                    10 => mm.clear(),
                    11 => {
                        let take = (r7 % 4) as usize;
                        let mut d = mm.drain();
                        for _ in 0..take {
                            if let Some((k, x)) = d.next() {
                                k.chk("drain key");
                                x.chk("drain value");
                            }
                        }
                        drop(d);
                    }
                    12 => {
                        let x = mm.entry(mk(c1, tag)).or_insert(mv(tag));
                        x.chk("or_insert ref");
                    }
                    13 => {
                        let x = mm.entry(mk(c1, tag)).or_default();
                        x.chk("or_default ref");
                    }
                    14 => {
                        let x = mm.entry(mk(c1, tag)).and_modify(|x| x.set_payload(1)).or_insert_with(|| F::V::mk(2));
                        x.chk("or_insert_with ref");
                    }
                    15 => match mm.entry(mk(c1, tag)) {
                        Entry::Occupied(mut o) => {
                            o.key().chk("occupied key");
                            o.get().chk("occupied get");
                            if r7 & 1 == 1 {
                                drop(o.insert(mv(tag)));
                                drop(o.remove_entry());
                            } else {
                                o.get_mut().set_payload(3);
                                drop(o.remove());
                            }
                        }
                        Entry::Vacant(va) => {
                            va.key().chk("vacant key");
                            if r7 & 1 == 1 {
                                va.insert(mv(tag));
                            } else {
                                drop(va.into_key());
                            }
                        }
                    },
                    16 => {
                        F::K::with_q(c1, |q1| {
                            F::K::with_q(c2, |q2| {
                                let got = mm.get_disjoint_mut::<<F::K as KeyF>::Q, 2>([q1, q2]);
                                use_together::<F::V, 2>(got);
                            })
                        });
                    }
                    17 => {
                        let ks = [mk(c1, 0), mk(c2, 0), mk(c3, 0)];
                        let got = mm.get_disjoint_mut::<F::K, 3>([&ks[0], &ks[1], &ks[2]]);
                        use_together::<F::V, 3>(got);
                    }
                    18 => {
                        let ks: [F::K; 6] = core::array::from_fn(|i| mk(1 + ((r7 >> (8 * i)) % u64::from(u + 1)) as u32, 0));
                        let got = mm.get_disjoint_mut::<F::K, 6>(ks.each_ref());
                        use_together::<F::V, 6>(got);
                    }
                    19 => {
                        let c = mm.clone();
                        let _ = c == *mm;
                        let _ = *mm == c;
                        drop(c);
                    }
                    20 => {
                        let c = mm.clone();
                        let take = (r7 % 4) as usize;
                        match r7 % 3 {
                            0 => {
                                let mut it = c.into_iter();
                                for _ in 0..take {
                                    drop(it.next());
                                }
                            }
                            1 => {
                                let mut it = c.into_keys();
                                for _ in 0..take {
                                    drop(it.next());
                                }
                            }
                            _ => {
                                let mut it = c.into_values();
                                for _ in 0..take {
                                    drop(it.next());
                                }
                            }
                        }
                    }
                    21 => {
                        let n = (r7 % (N as u64 + 2)) as u32;
                        let items: Vec<(F::K, F::V)> = (0..n).map(|i| (mk(1 + (c1 + i) % u, tag), mv(i))).collect();
                        let c: Map<F::K, F::V, N> = items.into_iter().collect();
                        drop(c);
                        // the array constructors compare keys too (few classes, so that keys repeat and the
                        // lying comparison has something to be inconsistent about)
                        let spread = 1 + (r7 >> 9) % 3;
                        let arr: [(F::K, F::V); N] = core::array::from_fn(|i| (mk(1 + ((u64::from(c2) + i as u64 * spread) % 3) as u32, tag), mv(i as u32)));
                        let c: Map<F::K, F::V, N> = Map::from(arr);
                        drop(c);
                        let arr: [F::K; N] = core::array::from_fn(|i| mk(1 + ((u64::from(c3) + i as u64 * spread) % 3) as u32, tag));
                        let c: Set<F::K, N> = Set::from(arr);
                        drop(c);
                    }
                    22 => {
                        let _ = format!("{:?}{}{:?}{:?}", mm, mm, mm.iter(), ss);
                    }
                    23 => {
                        let target = if r7 & 1 == 1 { ss } else { tt };
                        target.insert(mk(c1, tag));
                    }
                    24 => drop(ss.replace(mk(c1, tag))),
                    25 => {
                        if r7 & 1 == 1 {
                            let _ = lookup!(F, c1, byq, |q| ss.remove::<QT!()>(q));
                        } else {
                            drop(lookup!(F, c1, byq, |q| ss.take::<QT!()>(q)));
                        }
                        let _ = lookup!(F, c2, byq, |q| ss.contains::<QT!()>(q));
                        lookup!(F, c3, byq, |q| {
                            if let Some(k) = ss.get::<QT!()>(q) {
                                k.chk("Set::get");
                            }
                        });
                    }
                    26 => ss.retain(|k| {
                        k.chk("set retain element");
                        (r7 >> (k.class() % 60)) & 1 == 1
                    }),
                    27 => ss.extend(vec![mk(c1, tag), mk(c2, tag), mk(c3, tag)]),
                    28 => {
                        for k in ss.union(tt) {
                            k.chk("union item");
                        }
                        for k in ss.intersection(tt) {
                            k.chk("intersection item");
                        }
                        for k in ss.difference(tt) {
                            k.chk("difference item");
                        }
                        let n = ss.symmetric_difference(tt).fold(0usize, |a, k| {
                            k.chk("symmetric_difference item");
                            a + 1
                        });
                        let _ = std::hint::black_box(n);
                    }
                    _ => {
                        let d: Set<F::K, N> = &*ss - &*tt;
                        let _ = ss.is_subset(tt);
                        let _ = ss.is_superset(&d);
                        let _ = ss.is_disjoint(tt);
                        let _ = *ss == *tt;
                        drop(d);
                    }
                })
            };
            if r.panicked() {
                self.panics += 1;
                self.cx.rep.hit(&format!("{}:panicked", name));
            } else {
                self.cx.rep.hit(&format!("{}:returned", name));
            }
            self.quiescent::<F, N>(&m, &s, &t, "after step");
            if ledger::viol_total() > 0 {
                break;
            }
        }
        adv_reset();
        ledger::set_ctx(hist, steps as u32 + 1, "final-drop");
        let failed = ledger::viol_total() > 0;
        if failed && !F::TRACKED {
            m.forget();
            s.forget();
            t.forget();
        }
        drop(m);
        drop(s);
        drop(t);
        if !failed && F::TRACKED && ledger::alive_count() != 0 {
            v("leak", format!("{} objects alive after all containers were dropped", ledger::alive_count()));
        }
        if ledger::viol_total() > 0 {
            self.cx.rep.absorb_violations("C17", &|| ops.clone());
        }
        if self.cx.rep.samples.len() < 3 && ops.len() > 3 {
            let n = ops.len().min(10);
            self.cx.rep.sample(ops[..n].join("; "));
        }
    }
}

/// read all returned references, then write through all of them: aliasing would be visible
fn use_together<V: ValF, const J: usize>(got: [Option<&mut V>; J]) {
    let mut refs: Vec<&mut V> = got.into_iter().flatten().collect();
    let addrs: Vec<usize> = refs.iter().map(|x| addr_of::<V>(&**x)).collect();
    for i in 0..addrs.len() {
        for j in i + 1..addrs.len() {
            if addrs[i] == addrs[j] {
                v("aliasing", format!("get_disjoint_mut returned the same address {:#x} at two positions", addrs[i]));
            }
        }
    }
    for (i, x) in refs.iter_mut().enumerate() {
        x.chk("get_disjoint_mut item");
        x.set_payload(9000 + i as u32);
    }
}

/// Keys with a SMALL value space and a lying `==`: a one-byte key that is never equal to anything (not even to
/// itself) in a map with a slot for each of its 256 bit patterns or more, and a zero-sized key with a sized
/// value in a map of any capacity.  "All keys are distinct, so it cannot overflow" does not hold here: filling
/// the container and offering more must still end in a panic (or be refused) with nothing written outside.
#[derive(Clone, Copy, Debug)]
pub struct NeverEq(pub u8);
impl PartialEq for NeverEq {
    fn eq(&self, _: &Self) -> bool {
        false
    }
}
impl Eq for NeverEq {}
pub fn overfill<K: Eq + 'static, const N: usize>(l: &mut Liar, kname: &str, mk: &dyn Fn(u32) -> K) {
    ledger::set_ctx(N as u64, 0, "overfill(small key space)");
    let mut m: Box<Frame<Map<K, u32, N>>> = Frame::boxed(Map::new());
    let mut s: Box<Frame<Set<K, N>>> = Frame::boxed(Set::new());
    let mut rejected = 0u32;
    for i in 0..(N as u32 + 4) {
        let how = i % 4;
        let r = fault::catch(|| {
            let mm = m.get_mut();
            match how {
                0 => {
                    mm.insert(mk(i), i);
                }
                1 => {
                    let _ = mm.checked_insert(mk(i), i);
                }
                2 => {
                    mm.entry(mk(i)).or_insert(i);
                }
                _ => {
                    mm.insert_key_value(mk(i), i);
                }
            }
        });
        if r.panicked() {
            rejected += 1;
        }
        let r2 = fault::catch(|| {
            if how == 0 {
                s.get_mut().extend([mk(i)]);
            } else {
                s.get_mut().insert(mk(i));
            }
        });
        let _ = r2;
        l.cx.rep.evaluations += 2;
        if !m.canaries_ok() || !s.canaries_ok() {
            v("canary", format!("Map<{},u32,{}> / Set under a never-equal ==: memory outside the container was written at insertion #{}", kname, N, i));
            break;
        }
        let (ml, sl) = (m.get().len(), s.get().len());
        if ml > N || sl > N || m.get().iter().count() != ml || s.get().iter().count() != sl {
            v("malformed", format!("Map<{},u32,{}> / Set under a never-equal ==: after insertion #{} len() = {} / {} (capacity {}), iteration yields {} / {}", kname, N, i, ml, sl, N, m.get().iter().count(), s.get().iter().count()));
            break;
        }
    }
    let _ = rejected;
    l.cx.rep.hit(&format!("overfill:{}", kname));
    if ledger::viol_total() > 0 {
        let d = format!("overfill probe Map<{},u32,{}>", kname, N);
        l.cx.rep.absorb_violations("C17", &|| vec![d.clone()]);
    }
}

pub fn stats(l: &mut Liar) {
    let (calls, lies) = adv_stats();
    l.cx.rep.num("adversarial_comparisons", calls);
    l.cx.rep.num("comparisons_answered_untruthfully", lies);
    let p = l.panics;
    l.cx.rep.num("operations_that_panicked(accepted)", p);
}
