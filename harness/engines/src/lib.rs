//! Shared engine code.  Everything that touches micromap lives in this crate, which has a path
//! dependency on /repo, so every build picks up the current working tree.

pub mod algebra;
pub mod bulk;
pub mod common;
pub mod disjoint;
pub mod entryeq;
pub mod eqclone;
pub mod fam;
pub mod liar;
pub mod full;
pub mod maphist;
pub mod model;
pub mod noheap;
pub mod panicsafe;
#[cfg(feature = "serde")]
pub mod serde_rec;
#[cfg(feature = "serde")]
pub mod serdeeng;
pub mod sethist;

pub use support::{alloc, args, elems, fault, frame, ledger, report, rng};
