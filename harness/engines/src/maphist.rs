//! Map history engine: random operation histories on a real `micromap::Map` stepped in
//! lock-step with the reference dictionary, with a full observation sweep after every step.
//!
//! One engine, several oracles; each violation is tagged with the property it refutes:
//!   C01 return values / contents / panics vs the model      C09 borrowing iterators
//!   C02 ownership ledger + conservation after every step    C10 consuming iterators, drain
//!   C05 well-formedness (unique keys, len == iteration, …)   C12 stored-key identity
//!   C15 clone (exactly-one clone per element, independence)  C19 Debug / Display renderings
//! `--prop` selects the operation weights (what the workload concentrates on); every oracle
//! runs in every mode and tags what it sees.

use crate::common::{Ctx, Hist};
use crate::fam::{Fam, KeyF, ValF};
use crate::model::{Dict, Ent};
use micromap::Map;
use support::fault::{self, Caught};
use support::frame::{addr_of, Frame};
use support::ledger::{self, Ev, KIND_KEY, KIND_VAL};
use support::rng::{Fp, Rng};

pub struct Sut<F: Fam, const N: usize> {
    pub fr: Box<Frame<Map<F::K, F::V, N>>>,
    pub model: Dict,
    /// classes in the iteration order observed by the last sweep
    pub order: Vec<u32>,
}

impl<F: Fam, const N: usize> Sut<F, N> {
    pub fn new() -> Self {
        Sut {
            fr: Frame::boxed(Map::new()),
            model: Dict::new(N),
            order: Vec::new(),
        }
    }
}

pub const OPS: [&str; 19] = [
    "insert",
    "insert_key_value",
    "checked_insert",
    "get_mut",
    "index",
    "index_mut",
    "remove",
    "remove_entry",
    "retain",
    "clear",
    "drain",
    "consume",
    "fork",
    "iter_probe",
    "fmt_probe",
    "entry",
    "insert_unchecked",
    "adaptor",
    "rebuild",
];
const O_INSERT: usize = 0;
const O_IKV: usize = 1;
const O_CHECKED: usize = 2;
const O_GETMUT: usize = 3;
const O_INDEX: usize = 4;
const O_INDEXMUT: usize = 5;
const O_REMOVE: usize = 6;
const O_REMOVE_ENTRY: usize = 7;
const O_RETAIN: usize = 8;
const O_CLEAR: usize = 9;
const O_DRAIN: usize = 10;
const O_CONSUME: usize = 11;
const O_FORK: usize = 12;
const O_ITER: usize = 13;
const O_FMT: usize = 14;
const O_ENTRY: usize = 15;
const O_UNCHECKED: usize = 16;
const O_ADAPT: usize = 17;
const O_REBUILD: usize = 18;

pub struct Cfg {
    pub weights: [u32; 19],
    pub allow_forget: bool,
    pub profile: &'static str,
    /// probability (num/8) that an inserting/looking-up op targets a present class
    pub p_present: u64,
}

pub fn weights_for(prop: &str) -> [u32; 19] {
    //            ins ikv chk gmu idx idm rem ren ret clr drn con frk itr fmt ent
    let mut w = [14, 6, 8, 4, 3, 3, 10, 5, 3, 1, 2, 1, 1, 2, 1, 6, 0, 2, 1];
    match prop {
        "C01" => {
            w[O_FORK] = 0;
            w[O_FMT] = 0;
            w[O_ITER] = 1;
        }
        "C02" => {
            w[O_DRAIN] = 6;
            w[O_CONSUME] = 5;
            w[O_FORK] = 3;
            w[O_RETAIN] = 5;
            w[O_CLEAR] = 2;
            w[O_ADAPT] = 8;
            // the unsafe fast path inside its contract moves and drops elements too
            w[O_UNCHECKED] = 4;
        }
        "C05" => {
            // states reached through the unsafe fast path (inside its contract) count as reachable states
            w[O_UNCHECKED] = 8;
            w[O_ENTRY] = 10;
            w[O_RETAIN] = 6;
            w[O_CHECKED] = 10;
        }
        "C09" => {
            w[O_ITER] = 30;
            w[O_ADAPT] = 20;
            // "every reachable container state": states reached through the unsafe fast path inside its contract too
            w[O_UNCHECKED] = 6;
        }
        "C10" => {
            w[O_DRAIN] = 16;
            w[O_CONSUME] = 16;
            w[O_ADAPT] = 16;
            w[O_UNCHECKED] = 3;
        }
        "C11" => {
            // the entry API against the model of the direct operations, on every element family
            w[O_ENTRY] = 40;
            w[O_FMT] = 0;
            w[O_FORK] = 0;
        }
        "C12" => {
            w[O_REBUILD] = 6;
            w[O_IKV] = 12;
            w[O_CHECKED] = 12;
            w[O_ENTRY] = 10;
            w[O_REMOVE_ENTRY] = 8;
        }
        "C15" => {
            w[O_FORK] = 14;
            w[O_UNCHECKED] = 3;
        }
        "C18" => {
            // every plain insert becomes insert_unchecked (called only inside its contract)
            w[O_UNCHECKED] = 24;
            w[O_INSERT] = 2;
            w[O_FMT] = 0;
            w[O_FORK] = 1;
        }
        "C19" => {
            w[O_FMT] = 30;
            w[O_UNCHECKED] = 3;
        }
        _ => {}
    }
    w
}

const PROFILES: [&str; 5] = ["uniform", "fill", "churn-at-full", "drain-down", "revisit"];

fn make_cfg(prop: &str, rng: &mut Rng, allow_forget: bool) -> Cfg {
    let mut w = weights_for(prop);
    let profile = PROFILES[rng.usize_below(PROFILES.len())];
    let mut p_present = 4;
    match profile {
        "fill" => {
            w[O_INSERT] *= 3;
            w[O_UNCHECKED] *= 3;
            w[O_IKV] *= 2;
            w[O_CHECKED] *= 2;
            p_present = 2;
        }
        "churn-at-full" => {
            w[O_INSERT] *= 2;
            w[O_UNCHECKED] *= 2;
            w[O_CHECKED] *= 2;
            w[O_REMOVE] *= 2;
            w[O_REMOVE_ENTRY] *= 2;
            w[O_CLEAR] = 0;
            w[O_DRAIN] /= 2;
            w[O_CONSUME] /= 2;
            p_present = 3;
        }
        "drain-down" => {
            w[O_REMOVE] *= 3;
            w[O_REMOVE_ENTRY] *= 2;
            w[O_RETAIN] *= 2;
            p_present = 6;
        }
        "revisit" => {
            p_present = 5;
        }
        _ => {}
    }
    Cfg {
        weights: w,
        allow_forget,
        profile,
        p_present,
    }
}

pub fn pos_name(order: &[u32], class: u32) -> &'static str {
    match order.iter().position(|c| *c == class) {
        None => "miss",
        Some(i) => {
            if order.len() == 1 {
                "hit-only"
            } else if i == 0 {
                "hit-first"
            } else if i + 1 == order.len() {
                "hit-last"
            } else {
                "hit-middle"
            }
        }
    }
}
pub fn fill_name(len: usize, n: usize) -> &'static str {
    if n == 0 {
        "cap0"
    } else if len == 0 {
        "empty"
    } else if len >= n {
        "full"
    } else {
        "partial"
    }
}

/// Expected Debug rendering of a map, built by hand from independently observed entries.
pub fn expect_map_debug(ents: &[(String, String)], alternate: bool) -> String {
    if ents.is_empty() {
        return "{}".to_string();
    }
    let mut s = String::new();
    if alternate {
        s.push_str("{\n");
        for (k, v) in ents {
            s.push_str("    ");
            s.push_str(k);
            s.push_str(": ");
            s.push_str(v);
            s.push_str(",\n");
        }
        s.push('}');
    } else {
        s.push('{');
        for (i, (k, v)) in ents.iter().enumerate() {
            if i > 0 {
                s.push_str(", ");
            }
            s.push_str(k);
            s.push_str(": ");
            s.push_str(v);
        }
        s.push('}');
    }
    s
}

/// std's own map rendering of an observed entry sequence (second, independent expectation).
pub struct StdMap<'a, K, V>(pub &'a [(&'a K, &'a V)]);
impl<K: std::fmt::Debug, V: std::fmt::Debug> std::fmt::Debug for StdMap<'_, K, V> {
    fn fmt(&self, f: &mut std::fmt::Formatter<'_>) -> std::fmt::Result {
        f.debug_map().entries(self.0.iter().map(|(k, v)| (*k, *v))).finish()
    }
}

/// Parse the Debug output of a list/set/map-style rendering of token elements into a sorted
/// multiset of entry strings.  Accepts `[a, b]`, `{a, b}` and the alternate multi-line forms.
pub fn parse_listing(s: &str) -> Option<Vec<String>> {
    let t = s.trim();
    let (open, close) = (t.chars().next()?, t.chars().last()?);
    if !((open == '[' && close == ']') || (open == '{' && close == '}')) || t.len() < 2 {
        return None;
    }
    let inner = &t[1..t.len() - 1];
    // entries are separated by commas at nesting depth 0 (tuples `(K1#0, V5)` nest)
    let mut out = Vec::new();
    let mut depth = 0i32;
    let mut cur = String::new();
    for c in inner.chars() {
        match c {
            '(' | '[' | '{' => {
                depth += 1;
                cur.push(c);
            }
            ')' | ']' | '}' => {
                depth -= 1;
                cur.push(c);
            }
            ',' if depth == 0 => {
                let e = normalise(&cur);
                if !e.is_empty() {
                    out.push(e);
                }
                cur.clear();
            }
            c => cur.push(c),
        }
    }
    let e = normalise(&cur);
    if !e.is_empty() {
        out.push(e);
    }
    out.sort();
    Some(out)
}
fn normalise(s: &str) -> String {
    // drop all whitespace and trailing commas inside tuples so `(\n K1#0,\n V5,\n)` == `(K1#0,V5)`
    let mut t: String = s.chars().filter(|c| !c.is_whitespace()).collect();
    while t.contains(",)") {
        t = t.replace(",)", ")");
    }
    t
}

pub struct Engine<'a> {
    pub cx: &'a mut Ctx,
    pub h: Hist,
    pub rng: Rng,
    pub cfg: Cfg,
    pub universe: u32,
    /// light sweep (Miri / valgrind): look up only the class just operated on and one other
    pub light: bool,
    pub focus: u32,
    /// quiet history: the per-step sweep only iterates; the by-key lookups of every class run on every 16th
    /// step only.  Lookups are operations too - a container that caches something about its last lookup is
    /// put into the same state by every full sweep, and what goes stale between two USER calls stays hidden.
    pub quiet: bool,
}

// `m.get(q)` in a generic context makes rustc pick the `K: Borrow<KeyF::Q>` where-clause
// eagerly, so the borrowed-form type has to be named explicitly: each branch defines `QT!()`.
macro_rules! lookup {
    ($F:ty, $class:expr, $byq:expr, |$q:ident| $body:expr) => {
        if $byq {
            #[allow(unused_macros)]
            macro_rules! QT { () => { <<$F as Fam>::K as KeyF>::Q } }
            <<$F as Fam>::K as KeyF>::with_q($class, |$q| $body)
        } else {
            #[allow(unused_macros)]
            macro_rules! QT { () => { <$F as Fam>::K } }
            let probe = <<$F as Fam>::K as KeyF>::mk($class, 0xFFFF);
            let $q = &probe;
            $body
        }
    };
}

impl<'a> Engine<'a> {
    /// open a monitored step; in light mode (Miri) the description is not built
    fn step(&mut self, op: &'static str, d: impl FnOnce() -> String) {
        if self.light {
            self.h.begin_step(op, String::new());
            self.cx.rep.hit(op);
        } else {
            self.h.begin_step(op, d());
        }
    }
    fn pick_class<F: Fam, const N: usize>(&mut self, s: &Sut<F, N>) -> u32 {
        let c = self.pick_class0(s);
        self.focus = c;
        c
    }
    fn pick_class0<F: Fam, const N: usize>(&mut self, s: &Sut<F, N>) -> u32 {
        if !s.order.is_empty() && self.rng.below(8) < self.cfg.p_present {
            // first / last / uniform position
            match self.rng.below(4) {
                0 => s.order[0],
                1 => s.order[s.order.len() - 1],
                _ => s.order[self.rng.usize_below(s.order.len())],
            }
        } else {
            1 + self.rng.below(u64::from(self.universe)) as u32
        }
    }

    fn fp_step<F: Fam, const N: usize>(&mut self, s: &Sut<F, N>, op: usize, class: u32, aux: u64) {
        let mut fp = Fp::new(0x4D41_5000 + N as u64);
        for c in &s.order {
            fp.add(u64::from(*c));
        }
        fp.add(0xFFFF_0000 + op as u64);
        fp.add(u64::from(class));
        fp.add(aux);
        // non-trivial: the pre-state is non-empty or the op mutates
        let mutates = !matches!(op, O_INDEX | O_ITER | O_FMT | O_ADAPT);
        if !s.order.is_empty() || mutates {
            self.cx.rep.fps.add(fp.get());
        }
        self.cx.rep.evaluations += 1;
    }

    /// ledger conservation: every live object is stored in a container or was legitimately
    /// leaked by the harness
    fn conservation<F: Fam>(&mut self, stored_entries: usize, whr: &str) {
        if let (Some(live), false) = (F::live_objects().map(|l| l - self.h.live_base), self.h.failed) {
            // self-counting keys (zero-sized): one key object per stored entry
            let want = stored_entries as i64 + (self.h.leaked_ok / 2) as i64;
            if live != want {
                self.h.viol("C02", if live > want { "leak" } else { "destroyed-too-many" }, format!("{}: {} self-counting key objects are alive but the containers hold {} entries (harness leaked {})", whr, live, stored_entries, self.h.leaked_ok / 2));
            }
        }
        if !F::TRACKED || self.h.failed {
            return;
        }
        let alive = ledger::alive_count();
        let want = 2 * stored_entries + self.h.leaked_ok;
        if alive > want && self.h.fault_leak {
            return; // elements leaked by an injected user panic: tolerated
        }
        if alive > want && self.cx.prop == "C10" {
            // C10's own mechanism ("Drain::drop destroys the rest", "remaining slots are dropped by the wrapped
            // Map's Drop"): an entry the consuming iterator / drain neither yielded nor destroyed is still around
            // after the iterator is gone, so the container was not emptied of it
            let (_, _, op) = ledger::ctx();
            if matches!(op, "drain" | "consume" | "adaptor" | "rebuild") {
                self.h.viol("C10", "neither-yielded-nor-destroyed", format!("{}: {} instrumented objects outlive a consuming iterator / drain that was dropped (not forgotten) without yielding them", whr, alive - want));
            }
        }
        if alive != want {
            let what = if alive > want { "leak" } else { "destroyed-too-many" };
            let ids = ledger::alive_ids();
            self.h.viol(
                "C02",
                what,
                format!(
                    "{}: {} live instrumented objects, but containers hold {} entries (= {} objects) and the harness legitimately leaked {}; live ids (first 12): {:x?}",
                    whr, alive, stored_entries, 2 * stored_entries, self.h.leaked_ok,
                    &ids[..ids.len().min(12)]
                ),
            );
        }
    }

    /// C05, model-free: runs after EVERY step, also when another oracle has already fired
    pub fn wellformed<F: Fam, const N: usize>(&mut self, s: &Sut<F, N>, whr: &str) {
        let r = fault::catch(|| {
            let m = s.fr.get();
            let mut problems: Vec<(&'static str, String)> = Vec::new();
            let len = m.len();
            if m.is_empty() != (len == 0) {
                problems.push(("is_empty", format!("is_empty() = {} with len() = {}", m.is_empty(), len)));
            }
            if len > m.capacity() || m.capacity() != N {
                problems.push(("len>capacity", format!("len() = {}, capacity() = {}, N = {}", len, m.capacity(), N)));
            }
            let mut seen: Vec<u32> = Vec::new();
            let mut count = 0usize;
            for (k, v) in m.iter() {
                count += 1;
                if count > N + 4 {
                    break;
                }
                if !(k.chk("iter().key") & v.chk("iter().value")) {
                    continue;
                }
                if seen.contains(&k.class()) {
                    problems.push(("duplicate-key", format!("iteration yields two keys of class {}", k.class())));
                }
                seen.push(k.class());
            }
            if count != len {
                problems.push(("len-vs-iteration", format!("len() = {} but iter() yields {} entries", len, count)));
            }
            problems
        });
        match r {
            Caught::Ok(p) => {
                for (what, msg) in p {
                    self.h.viol("C05", what, format!("{}: {}", whr, msg));
                }
            }
            Caught::Panic(msg) => self.h.viol("C05", "observation-panics", format!("{}: len()/iter() panicked: {}", whr, msg)),
            Caught::Injected(..) => {}
        }
    }

    // -----------------------------------------------------------------------------------------
    // full observation sweep

    /// In a C09 run the full-traversal of the per-step sweep is itself an observation of a borrowing
    /// iterator ("yields every stored entry exactly once and nothing else", stored = what the history
    /// of calls left in the map): divergences are reported for C09 as well.
    fn iter9(&mut self, what: &str, msg: String) {
        if self.cx.prop == "C09" {
            self.h.viol("C09", &format!("sweep-iter:{}", what), msg);
        }
    }
    pub fn sweep<F: Fam, const N: usize>(&mut self, s: &mut Sut<F, N>) {
        if !s.fr.canaries_ok() {
            self.h.viol("MEM", "canary", "memory outside the container was overwritten (canary damaged)".into());
        }
        let m = s.fr.get();
        let len = m.len();
        if len != s.model.len() {
            self.h.viol("C01", "len", format!("len() = {} but the model holds {} entries", len, s.model.len()));
        }
        if m.is_empty() != (len == 0) {
            self.h.viol("C05", "is_empty", format!("is_empty() = {} with len() = {}", m.is_empty(), len));
        }
        if m.capacity() != N {
            self.h.viol("C05", "capacity", format!("capacity() = {} for N = {}", m.capacity(), N));
        }
        if len > m.capacity() {
            self.h.viol("C05", "len>capacity", format!("len() = {} exceeds capacity() = {}", len, m.capacity()));
        }
        // iteration
        let mut seen: Vec<(u32, usize, u64)> = Vec::with_capacity(len); // class, addr of value, vid
        let mut count = 0usize;
        let range = s.fr.range();
        for (k, v) in m.iter() {
            count += 1;
            if count > N + 4 {
                self.h.viol("C05", "iter-runaway", "iter() yields more than N+4 entries".into());
                break;
            }
            let ok = k.chk("iter().key") & v.chk("iter().value");
            if !ok {
                self.h.failed = true;
                continue;
            }
            let va = addr_of(v);
            let ka = addr_of(k);
            if !(ka >= range.0 && ka + std::mem::size_of::<F::K>() <= range.1 && va >= range.0 && va + std::mem::size_of::<F::V>() <= range.1) {
                self.h.viol("C06", "ref-outside", format!("iter() reference outside the container bytes: key {:#x} value {:#x} range {:#x?}", ka, va, range));
            }
            let class = k.class();
            if seen.iter().any(|x| x.0 == class) {
                self.h.viol("C05", "duplicate-key", format!("iteration yields two keys of class {}", class));
                self.iter9("entry-twice", format!("iter() yields two entries with key class {} although the history stored one", class));
                continue;
            }
            seen.push((class, va, v.id()));
            match s.model.get(class) {
                None => {
                    self.h.viol("C01", "phantom-key", format!("iteration yields key class {} which the model does not hold", class));
                    self.iter9("not-stored", format!("iter() yields key class {} which no operation of the history left stored", class));
                }
                Some(e) => {
                    if v.payload() != e.payload {
                        self.h.viol("C01", "value", format!("class {}: stored value {} but the model says {}", class, v.payload(), e.payload));
                        self.iter9("value", format!("iter() yields value {} for class {}; the history left {} stored", v.payload(), class, e.payload));
                    }
                    if F::IDENT {
                        if k.tag() != e.tag || k.id() != e.kid {
                            let msg = format!("class {}: stored key is tag {} id {:#x}, model expects tag {} id {:#x}", class, k.tag(), k.id(), e.tag, e.kid);
                            self.h.viol("C12", "stored-key-identity", msg.clone());
                            // iteration hands out key objects too: the dictionary C01 describes keeps the key C12 says it keeps
                            self.h.viol("C01", "yielded-key-object", msg);
                        }
                        if v.id() != e.vid && v.payload() == e.payload {
                            self.h.viol("C02", "value-object-identity", format!("class {}: stored value object {:#x}, model expects {:#x}", class, v.id(), e.vid));
                        }
                    }
                }
            }
        }
        if count != len {
            self.h.viol("C05", "len-vs-iteration", format!("len() = {} but iter() yields {} entries", len, count));
        }
        if count != s.model.len() {
            self.iter9("count", format!("iter() yields {} entries; the history left {} stored", count, s.model.len()));
        }
        for e in &s.model.ents {
            if !seen.iter().any(|x| x.0 == e.class) {
                self.h.viol("C01", "missing-key", format!("model holds class {} but iteration does not yield it", e.class));
                self.iter9("omitted", format!("iter() does not yield class {} which the history left stored", e.class));
            }
        }
        s.order.clear();
        s.order.extend(seen.iter().map(|x| x.0));
        if self.h.failed {
            return;
        }
        if self.quiet && self.h.step % 16 != 0 {
            return;
        }
        // lookups for every class of the universe, by borrowed form and by key
        let other = 1 + (self.focus + 1 + self.h.step) % self.universe.max(1);
        for class in 1..=self.universe {
            if self.light && class != self.focus && class != other {
                continue;
            }
            let want = s.model.get(class).cloned();
            for byq in [true, false] {
                let m = s.fr.get();
                // (present, payload, vid, vaddr)
                let g: Option<(u32, u64, usize)> = lookup!(F, class, byq, |q| m.get::<QT!()>(q).map(|v| {
                    v.chk("get()");
                    (v.payload(), v.id(), addr_of(v))
                }));
                let c: bool = lookup!(F, class, byq, |q| m.contains_key::<QT!()>(q));
                let kv: Option<(u32, u64, u32, u64)> = lookup!(F, class, byq, |q| m.get_key_value::<QT!()>(q).map(|(k, v)| {
                    k.chk("get_key_value().0");
                    v.chk("get_key_value().1");
                    (k.tag(), k.id(), v.payload(), v.id())
                }));
                let how = if byq { "borrowed form" } else { "key" };
                match (&want, &g) {
                    (None, None) => {}
                    (Some(e), Some((p, vid, va))) => {
                        if *p != e.payload {
                            self.h.viol("C01", "get", format!("get(class {}) by {} = {} but the model says {}", class, how, p, e.payload));
                        }
                        let y = seen.iter().find(|x| x.0 == class);
                        if let Some(y) = y {
                            if y.1 != *va || (F::TRACKED && y.2 != *vid) {
                                self.h.viol("C05", "lookup-vs-iteration", format!("get(class {}) returns a different value object than iteration yields with that key", class));
                            }
                        }
                    }
                    (None, Some(_)) => self.h.viol("C01", "get", format!("get(class {}) by {} finds a value for an absent key", class, how)),
                    (Some(_), None) => {
                        self.h.viol("C01", "get", format!("get(class {}) by {} = None for a present key", class, how));
                        self.h.viol("C05", "lookup-vs-iteration", format!("class {} is yielded by iteration but cannot be looked up by {}", class, how));
                    }
                }
                if c != want.is_some() {
                    self.h.viol("C01", "contains_key", format!("contains_key(class {}) by {} = {} but the model says {}", class, how, c, want.is_some()));
                }
                match (&want, &kv) {
                    (None, None) => {}
                    (Some(e), Some((tag, kid, p, _vid))) => {
                        if *p != e.payload {
                            self.h.viol("C01", "get_key_value", format!("get_key_value(class {}) by {}: value {} vs model {}", class, how, p, e.payload));
                        }
                        if F::IDENT && (*tag != e.tag || *kid != e.kid) {
                            let msg = format!("get_key_value(class {}) exposes key tag {} id {:#x}, stored key is tag {} id {:#x}", class, tag, kid, e.tag, e.kid);
                            self.h.viol("C12", "get_key_value-identity", msg.clone());
                            // the key object is part of the return value (get_key_value / insert_key_value / remove_entry), so C01 is refuted as well
                            self.h.viol("C01", "returned-key-object", msg);
                        }
                    }
                    _ => self.h.viol("C01", "get_key_value", format!("get_key_value(class {}) by {}: presence differs from the model ({})", class, how, want.is_some())),
                }
            }
        }
    }

    // -----------------------------------------------------------------------------------------
    // operations

    fn op_insert<F: Fam, const N: usize>(&mut self, s: &mut Sut<F, N>, which: usize) {
        let class = self.pick_class(s);
        let tag = self.h.tag();
        let payload = self.h.payload();
        let name = OPS[which];
        self.step(name, || format!("{}(K{}#{}, V{})", name, class, tag, payload));
        self.fp_step(s, which, class, 0);
        let pre = s.model.get(class).cloned();
        let full = s.model.is_full();
        if which == O_UNCHECKED && pre.is_none() && full {
            // outside the documented precondition: the harness never makes that call
            self.cx.rep.num("insert_unchecked_skipped_outside_contract", 1);
            return;
        }
        let fill = fill_name(s.model.len(), N);
        let pos = pos_name(&s.order, class);
        if !self.light { self.cx.rep.hit(&format!("{}:{}:{}", name, pos, fill)); }
        let k = F::K::mk(class, tag);
        let v = F::V::mk(payload);
        let (kid, vid) = (k.id(), v.id());
        let m = s.fr.get_mut();
        // normalised result: Ok(None)=added, Ok(Some((old key tag/id if returned, old payload, old vid)))=replaced, Err=rejected(None from checked_insert)
        type R = Result<Option<(Option<(u32, u64)>, u32, u64)>, ()>;
        let r: Caught<R> = fault::catch(|| match which {
            O_INSERT => Ok(m.insert(k, v).map(|ov| {
                ov.chk("insert() result");
                (None, ov.payload(), ov.id())
            })),
            // SAFETY: len < N or the key is present (checked above)
            O_UNCHECKED => Ok(unsafe { m.insert_unchecked(k, v) }.map(|ov| {
                ov.chk("insert_unchecked() result");
                (None, ov.payload(), ov.id())
            })),
            O_IKV => Ok(m.insert_key_value(k, v).map(|(ok, ov)| {
                ok.chk("insert_key_value() key");
                ov.chk("insert_key_value() value");
                (Some((ok.tag(), ok.id())), ov.payload(), ov.id())
            })),
            _ => match m.checked_insert(k, v) {
                None => Err(()),
                Some(o) => Ok(o.map(|ov| {
                    ov.chk("checked_insert() result");
                    (None, ov.payload(), ov.id())
                })),
            },
        });
        let must_panic = pre.is_none() && full && which != O_CHECKED;
        match r {
            Caught::Injected(..) => unreachable!(),
            Caught::Panic(msg) => {
                if !must_panic {
                    self.h.viol("C01", "unexpected-panic", format!("{} panicked ({}) although the model has room / the key is present", name, msg));
                }
                // model unchanged
            }
            Caught::Ok(res) => {
                if must_panic {
                    self.h.viol("C01", "no-panic-on-full", format!("{} of a new key into a full map (len {} = N) returned instead of panicking", name, s.model.len()));
                    return;
                }
                match (pre, res) {
                    (None, Ok(None)) if !full => {
                        s.model.push(Ent { class, tag, kid, vid, payload });
                    }
                    (None, Err(())) if full && which == O_CHECKED => { /* rejected, nothing changes */ }
                    (Some(e), Ok(Some((okey, op, ovid)))) => {
                        if op != e.payload {
                            self.h.viol("C01", "returned-value", format!("{} returned old value {} but the model held {}", name, op, e.payload));
                        }
                        if F::TRACKED && ovid != e.vid && op == e.payload {
                            self.h.viol("C02", "returned-object", format!("{} returned value object {:#x}, the stored one was {:#x}", name, ovid, e.vid));
                        }
                        let me = s.model.get_mut(class).unwrap();
                        me.vid = vid;
                        me.payload = payload;
                        if which == O_IKV {
                            if F::IDENT {
                                if let Some((otag, oid)) = okey {
                                    if otag != e.tag || oid != e.kid {
                                        let msg = format!("insert_key_value returned key tag {} id {:#x} but the stored key was tag {} id {:#x}", otag, oid, e.tag, e.kid);
                                        self.h.viol("C12", "returned-key-identity", msg.clone());
                                        // the key object is part of the return value (get_key_value / insert_key_value / remove_entry), so C01 is refuted as well
                                        self.h.viol("C01", "returned-key-object", msg);
                                    }
                                }
                            }
                            me.tag = tag;
                            me.kid = kid;
                        } else if F::TRACKED && ledger::is_alive(kid) {
                            // insert / checked_insert keep the old key: the supplied one must be gone
                            // (if it was stored instead, the sweep reports the identity mismatch)
                        }
                    }
                    (pre, res) => {
                        self.h.viol("C01", "result-shape", format!("{}: result {:?} does not match the model (key present before: {}, full: {})", name, res.map(|o| o.map(|x| x.1)), pre.is_some(), full));
                    }
                }
            }
        }
    }

    fn op_get_mut<F: Fam, const N: usize>(&mut self, s: &mut Sut<F, N>) {
        let class = self.pick_class(s);
        let byq = self.rng.chance(1, 2);
        let newp = self.h.payload();
        self.step("get_mut", || format!("get_mut({}{}) = V{}", if byq { "Q" } else { "K" }, class, newp));
        self.fp_step(s, O_GETMUT, class, u64::from(byq));
        if !self.light { self.cx.rep.hit(&format!("get_mut:{}:{}", pos_name(&s.order, class), fill_name(s.model.len(), N))); }
        let m = s.fr.get_mut();
        let r: Option<u32> = lookup!(F, class, byq, |q| m.get_mut::<QT!()>(q).map(|v| {
            v.chk("get_mut()");
            let old = v.payload();
            v.set_payload(newp);
            old
        }));
        match (s.model.get_mut(class), r) {
            (None, None) => {}
            (Some(e), Some(old)) => {
                if old != e.payload {
                    self.h.viol("C01", "get_mut", format!("get_mut(class {}) saw {} but the model holds {}", class, old, e.payload));
                }
                e.payload = newp;
            }
            (a, b) => self.h.viol("C01", "get_mut", format!("get_mut(class {}): found={} but model present={}", class, b.is_some(), a.is_some())),
        }
    }

    fn op_index<F: Fam, const N: usize>(&mut self, s: &mut Sut<F, N>, mutating: bool) {
        let class = self.pick_class(s);
        let byq = self.rng.chance(1, 2);
        let newp = self.h.payload();
        let name = if mutating { "index_mut" } else { "index" };
        self.step(name, || format!("{}[{}{}]", name, if byq { "Q" } else { "K" }, class));
        self.fp_step(s, if mutating { O_INDEXMUT } else { O_INDEX }, class, u64::from(byq));
        if !self.light { self.cx.rep.hit(&format!("{}:{}:{}", name, pos_name(&s.order, class), fill_name(s.model.len(), N))); }
        let m = s.fr.get_mut();
        let r: Caught<u32> = fault::catch(|| {
            lookup!(F, class, byq, |q| {
                if mutating {
                    let v = <Map<F::K, F::V, N> as std::ops::IndexMut<&QT!()>>::index_mut(m, q);
                    v.chk("index_mut");
                    let old = v.payload();
                    v.set_payload(newp);
                    old
                } else {
                    let v = <Map<F::K, F::V, N> as std::ops::Index<&QT!()>>::index(m, q);
                    v.chk("index");
                    v.payload()
                }
            })
        });
        match (s.model.get_mut(class), r) {
            (None, Caught::Panic(_)) => {}
            (Some(e), Caught::Ok(p)) => {
                if p != e.payload {
                    self.h.viol("C01", "index", format!("map[class {}] = {} but the model holds {}", class, p, e.payload));
                }
                if mutating {
                    e.payload = newp;
                }
            }
            (None, Caught::Ok(p)) => self.h.viol("C01", "index-absent", format!("indexing an absent key (class {}) returned {} instead of panicking", class, p)),
            (Some(_), Caught::Panic(msg)) => self.h.viol("C01", "index-present-panics", format!("indexing a present key (class {}) panicked: {}", class, msg)),
            (_, Caught::Injected(..)) => unreachable!(),
        }
    }

    fn op_remove<F: Fam, const N: usize>(&mut self, s: &mut Sut<F, N>, entry: bool) {
        let class = self.pick_class(s);
        let byq = self.rng.chance(1, 2);
        let name = if entry { "remove_entry" } else { "remove" };
        self.step(name, || format!("{}({}{})", name, if byq { "Q" } else { "K" }, class));
        self.fp_step(s, if entry { O_REMOVE_ENTRY } else { O_REMOVE }, class, u64::from(byq));
        if !self.light { self.cx.rep.hit(&format!("{}:{}:{}", name, pos_name(&s.order, class), fill_name(s.model.len(), N))); }
        let m = s.fr.get_mut();
        // (key tag/id if returned, payload, vid)
        let r: Option<(Option<(u32, u64)>, u32, u64)> = lookup!(F, class, byq, |q| {
            if entry {
                m.remove_entry::<QT!()>(q).map(|(k, v)| {
                    k.chk("remove_entry() key");
                    v.chk("remove_entry() value");
                    (Some((k.tag(), k.id())), v.payload(), v.id())
                })
            } else {
                m.remove::<QT!()>(q).map(|v| {
                    v.chk("remove() value");
                    (None, v.payload(), v.id())
                })
            }
        });
        let want = s.model.remove(class);
        match (want, r) {
            (None, None) => {}
            (Some(e), Some((key, p, vid))) => {
                if p != e.payload {
                    self.h.viol("C01", "removed-value", format!("{}(class {}) returned {} but the model held {}", name, class, p, e.payload));
                } else if F::TRACKED && vid != e.vid {
                    self.h.viol("C02", "returned-object", format!("{} returned value object {:#x}, the stored one was {:#x}", name, vid, e.vid));
                }
                if let (true, Some((tag, kid))) = (F::IDENT, key) {
                    if tag != e.tag || kid != e.kid {
                        let msg = format!("remove_entry(class {}) returned key tag {} id {:#x}; the stored key was tag {} id {:#x}", class, tag, kid, e.tag, e.kid);
                        self.h.viol("C12", "removed-key-identity", msg.clone());
                        // the key object is part of the return value (get_key_value / insert_key_value / remove_entry), so C01 is refuted as well
                        self.h.viol("C01", "returned-key-object", msg);
                    }
                }
            }
            (a, b) => self.h.viol("C01", "remove-presence", format!("{}(class {}): returned Some={} but model present={}", name, class, b.is_some(), a.is_some())),
        }
    }

    fn op_retain<F: Fam, const N: usize>(&mut self, s: &mut Sut<F, N>) {
        let mask = self.rng.next();
        let mutate = self.rng.chance(1, 2);
        let len0 = s.model.len();
        // sometimes the predicate panics at its k-th call (C04 meets C01: the map must stay a dictionary)
        let panic_at: Option<usize> = if len0 > 0 && self.rng.chance(1, 6) { Some(1 + self.rng.usize_below(len0)) } else { None };
        self.step("retain", || format!("retain(mask={:#06x}, mutate={}{})", mask & 0xFFFF, mutate, panic_at.map_or(String::new(), |k| format!(", predicate panics at call {}", k))));
        self.fp_step(s, O_RETAIN, u32::from(panic_at.is_some()), (mask & ((1u64.checked_shl(self.universe + 1).unwrap_or(0).wrapping_sub(1)))) ^ u64::from(mutate) << 40);
        let keep = |class: u32| (mask >> (class % 60)) & 1 == 1;
        let nkeep = s.model.ents.iter().filter(|e| keep(e.class)).count();
        let outcome = if panic_at.is_some() { "predicate-panics" } else if nkeep == s.model.len() { "keep-all" } else if nkeep == 0 { "drop-all" } else { "some" };
        if !self.light { self.cx.rep.hit(&format!("retain:{}:{}", outcome, fill_name(s.model.len(), N))); }
        let mut calls: Vec<u32> = Vec::new();
        let mut bad = false;
        let r = {
            let map = s.fr.get_mut();
            fault::catch(|| {
                map.retain(|k, v| {
                    if !(k.chk("retain() key") & v.chk("retain() value")) {
                        bad = true;
                        return true;
                    }
                    calls.push(k.class());
                    if Some(calls.len()) == panic_at {
                        std::panic::panic_any(fault::Injected(fault::Cb::Closure, 0));
                    }
                    let kp = keep(k.class());
                    if mutate && kp {
                        let p = v.payload();
                        v.set_payload(p.wrapping_add(1_000_000));
                    }
                    kp
                })
            })
        };
        if bad {
            self.h.failed = true;
        }
        match r {
            Caught::Ok(()) => {
                // the predicate must have been asked exactly once per stored entry
                let mut sorted = calls.clone();
                sorted.sort_unstable();
                let mut want = s.model.classes();
                want.sort_unstable();
                if sorted != want {
                    self.h.viol("C01", "retain-visits", format!("retain called its predicate for classes {:?}, the stored classes were {:?}", calls, want));
                }
                s.model.ents.retain(|e| keep(e.class));
                if mutate {
                    for e in &mut s.model.ents {
                        e.payload = e.payload.wrapping_add(1_000_000);
                    }
                }
            }
            Caught::Injected(..) => {
                self.h.fault_leak = true;
                self.cx.rep.num("retains_interrupted_by_a_predicate_panic", 1);
                let asked: Vec<u32> = calls[..calls.len().saturating_sub(1)].to_vec();
                let present: Vec<u32> = s.fr.get().iter().map(|(k, _)| k.class()).collect();
                let mut dedup = present.clone();
                dedup.sort_unstable();
                dedup.dedup();
                if dedup.len() != present.len() {
                    self.h.viol("C01", "not-a-dictionary-after-interrupted-retain", format!("after a retain interrupted by a predicate panic the map yields key classes {:?}: a key is stored twice", present));
                }
                for c in &present {
                    if s.model.get(*c).is_none() {
                        self.h.viol("C01", "phantom-after-interrupted-retain", format!("after an interrupted retain the map holds class {} which it did not hold before", c));
                    }
                }
                for e in &s.model.ents {
                    let must_stay = !calls.contains(&e.class) || (asked.contains(&e.class) && keep(e.class)) || calls.last() == Some(&e.class);
                    if must_stay && !present.contains(&e.class) {
                        self.h.viol("C01", "lost-by-interrupted-retain", format!("class {} was accepted by (or never shown to) the predicate but is gone after the interrupted retain", e.class));
                    }
                }
                s.model.ents.retain(|e| present.contains(&e.class));
                if mutate {
                    for e in &mut s.model.ents {
                        if asked.contains(&e.class) && keep(e.class) {
                            e.payload = e.payload.wrapping_add(1_000_000);
                        }
                    }
                }
            }
            Caught::Panic(msg) => self.h.viol("C01", "unexpected-panic", format!("retain panicked: {}", msg)),
        }
    }

    fn op_clear<F: Fam, const N: usize>(&mut self, s: &mut Sut<F, N>) {
        self.step("clear", || "clear()".into());
        self.fp_step(s, O_CLEAR, 0, 0);
        if !self.light { self.cx.rep.hit(&format!("clear:{}", fill_name(s.model.len(), N))); }
        s.fr.get_mut().clear();
        s.model.clear();
    }

    /// drain: consume j items, then drop or forget the drain
    fn op_drain<F: Fam, const N: usize>(&mut self, s: &mut Sut<F, N>) {
        let len = s.model.len();
        let j = self.rng.usize_below(len + 2);
        let forget = self.cfg.allow_forget && self.rng.chance(1, 4);
        self.step("drain", || format!("drain() take {} then {}", j, if forget { "forget" } else { "drop" }));
        self.fp_step(s, O_DRAIN, j as u32, u64::from(forget));
        if !self.light { self.cx.rep.hit(&format!("drain:{}:{}:{}", if j == 0 { "take0" } else if j >= len { "take-all" } else { "take-some" }, if forget { "forget" } else { "drop" }, fill_name(len, N))); }
        let before = s.model.clone();
        let mut yielded: Vec<u32> = Vec::new();
        // C04 meets C10: sometimes a single-shot panic is armed among the element destructors that the
        // drain's next() / drop run; the walk continues afterwards and the map must still end up empty
        let armed = F::TRACKED && !forget && self.rng.chance(1, 5);
        let mut injected = false;
        {
            let m = s.fr.get_mut();
            let mut d = m.drain();
            if armed {
                fault::arm_paused(1 + self.rng.below(2 * len as u64 + 2));
            }
            for step in 0..j {
                let remaining = len.saturating_sub(step);
                let (lo, hi) = d.size_hint();
                if !injected && (d.len() != remaining || lo != remaining || hi != Some(remaining)) {
                    self.h.viol("C10", "drain-len", format!("drain after {} of {} items: len() = {}, size_hint = ({}, {:?}), expected {}", step, len, d.len(), lo, hi, remaining));
                }
                let nx = if armed {
                    match fault::catch_live(|| d.next()) {
                        Caught::Ok(x) => x,
                        Caught::Injected(..) => {
                            injected = true;
                            continue;
                        }
                        Caught::Panic(msg) => {
                            self.h.viol("C10", "next-panics", format!("Drain::next() panicked: {}", msg));
                            break;
                        }
                    }
                } else {
                    d.next()
                };
                match nx {
                    Some((k, v)) => {
                        if !(k.chk("drain item key") & v.chk("drain item value")) {
                            self.h.failed = true;
                            break;
                        }
                        let class = k.class();
                        match before.get(class) {
                            Some(e) if !yielded.contains(&class) => {
                                if v.payload() != e.payload {
                                    self.h.viol("C10", "drain-value", format!("drain yielded class {} with value {}, the map held {}", class, v.payload(), e.payload));
                                }
                                if F::TRACKED && (k.id() != e.kid || v.id() != e.vid) {
                                    self.h.viol("C10", "drain-identity", format!("drain yielded class {} as objects ({:#x},{:#x}); the map held ({:#x},{:#x})", class, k.id(), v.id(), e.kid, e.vid));
                                }
                            }
                            Some(_) => self.h.viol("C10", "drain-repeat", format!("drain yielded class {} twice", class)),
                            None => self.h.viol("C10", "drain-phantom", format!("drain yielded class {} which the map did not hold", class)),
                        }
                        yielded.push(class);
                        if step >= len {
                            self.h.viol("C10", "drain-extra", format!("drain yielded a {}th item from a map of {} entries", step + 1, len));
                        }
                    }
                    None => {
                        if step < len && !injected {
                            self.h.viol("C10", "drain-short", format!("drain ended after {} items; the map held {}", step, len));
                        }
                        // None forever after the end
                        for _ in 0..2 {
                            if d.next().is_some() {
                                self.h.viol("C10", "drain-not-fused", "drain yielded Some after None".into());
                            }
                        }
                        break;
                    }
                }
            }
            if forget {
                std::mem::forget(d);
            } else if armed {
                if let Caught::Injected(..) = fault::catch_live(|| drop(d)) {
                    injected = true;
                }
            } else if self.rng.chance(1, 3) {
                // dropped by UNWINDING: the consumer panics while it still holds the partly consumed drain
                if !self.light { self.cx.rep.hit("drain:dropped-by-unwinding"); }
                let _ = fault::catch(move || {
                    let _hold = d;
                    panic!("the consumer of the drain panics");
                });
            } else {
                drop(d);
            }
            if armed {
                let (_, fired, _) = fault::end();
                if fired.is_some() || injected {
                    self.h.fault_leak = true;
                    self.cx.rep.num("faults_injected_into_iterator_walks", 1);
                }
            }
        }
        let not_yielded: Vec<Ent> = before.ents.iter().filter(|e| !yielded.contains(&e.class)).cloned().collect();
        if forget {
            // The property promises nothing about a forgotten drain except safety: accept any
            // well-formed subset of the not-yet-yielded entries and re-synchronise the model.
            let m = s.fr.get();
            let mut kept: Vec<Ent> = Vec::new();
            for (k, v) in m.iter() {
                if !(k.chk("after forgotten drain: key") & v.chk("after forgotten drain: value")) {
                    self.h.failed = true;
                    break;
                }
                match not_yielded.iter().find(|e| e.class == k.class()) {
                    Some(e) => kept.push(e.clone()),
                    None => self.h.viol("C10", "forgotten-drain-contents", format!("after a forgotten drain the map holds class {} which is not one of the un-yielded entries", k.class())),
                }
            }
            self.h.leaked_ok += 2 * (not_yielded.len() - kept.len().min(not_yielded.len()));
            s.model.ents = kept;
        } else {
            s.model.clear();
            let m = s.fr.get();
            if m.len() != 0 || !m.is_empty() || m.iter().next().is_some() {
                self.h.viol("C10", "drain-not-empty", format!("after drain() (took {} of {}) was dropped the map is not empty: len() = {}", j, len, m.len()));
                self.h.failed = true;
            }
        }
    }

    /// into_iter / into_keys / into_values: consume j items then drop or forget.
    /// The container is gone afterwards; the history continues with a fresh one.
    fn op_consume<F: Fam, const N: usize>(&mut self, s: &mut Sut<F, N>) {
        let len = s.model.len();
        let j = self.rng.usize_below(len + 2);
        let kind = self.rng.usize_below(3);
        let forget = self.cfg.allow_forget && self.rng.chance(1, 4);
        let kname = ["into_iter", "into_keys", "into_values"][kind];
        self.step("consume", || format!("{}() take {} then {}", kname, j, if forget { "forget" } else { "drop" }));
        self.fp_step(s, O_CONSUME, (kind * 100 + j) as u32, u64::from(forget));
        if !self.light { self.cx.rep.hit(&format!("{}:{}:{}:{}", kname, if j == 0 { "take0" } else if j >= len { "take-all" } else { "take-some" }, if forget { "forget" } else { "drop" }, fill_name(len, N))); }
        let before = std::mem::replace(&mut s.model, Dict::new(N));
        let map = s.fr.take();
        let mut got: Vec<u32> = Vec::new(); // classes (or payloads for into_values)
        let mut got_ids: Vec<u64> = Vec::new();
        // C04 meets C10: in a share of the walks a single-shot panic is armed somewhere among the user
        // callbacks (element destructors) that next() / the iterator's drop make; the walk goes on afterwards
        let armed = F::TRACKED && !forget && self.rng.chance(1, 5);
        let mut injected = false;
        if armed {
            fault::arm_paused(1 + self.rng.below(2 * len as u64 + 2));
        }
        macro_rules! walk {
            ($it:ident, $item:ident => $chk:expr, $ident:expr, $id:expr) => {{
                for step in 0..j {
                    let remaining = len.saturating_sub(step);
                    let (lo, hi) = $it.size_hint();
                    if !injected && ($it.len() != remaining || lo != remaining || hi != Some(remaining)) {
                        self.h.viol("C10", "consume-len", format!("{} after {} of {} items: len() = {}, size_hint = ({}, {:?}), expected {}", kname, step, len, $it.len(), lo, hi, remaining));
                    }
                    let nx = if armed {
                        match fault::catch_live(|| $it.next()) {
                            Caught::Ok(x) => x,
                            Caught::Injected(..) => {
                                injected = true;
                                continue;
                            }
                            Caught::Panic(msg) => {
                                self.h.viol("C10", "next-panics", format!("{}.next() panicked: {}", kname, msg));
                                break;
                            }
                        }
                    } else {
                        $it.next()
                    };
                    match nx {
                        Some($item) => {
                            if !$chk {
                                self.h.failed = true;
                                break;
                            }
                            got.push($ident);
                            got_ids.push($id);
                            if step >= len {
                                self.h.viol("C10", "consume-extra", format!("{} yielded more items than the map held ({})", kname, len));
                            }
                        }
                        None => {
                            if step < len && !injected {
                                self.h.viol("C10", "consume-short", format!("{} ended after {} items; the map held {}", kname, step, len));
                            }
                            for _ in 0..2 {
                                if $it.next().is_some() {
                                    self.h.viol("C10", "consume-not-fused", format!("{} yielded Some after None", kname));
                                }
                            }
                            break;
                        }
                    }
                }
                if forget {
                    std::mem::forget($it);
                } else if armed {
                    if let Caught::Injected(..) = fault::catch_live(|| drop($it)) {
                        injected = true;
                    }
                } else if self.rng.chance(1, 3) {
                    // dropped by UNWINDING: the consumer panics while it still holds the iterator
                    if !self.light { self.cx.rep.hit("consume:dropped-by-unwinding"); }
                    let _ = fault::catch(move || {
                        let _hold = $it;
                        panic!("the consumer of the iterator panics");
                    });
                } else {
                    drop($it);
                }
            }};
        }
        match kind {
            0 => {
                let mut it = map.into_iter();
                walk!(it, kv => kv.0.chk("into_iter item key") & kv.1.chk("into_iter item value"), kv.0.class(), kv.0.id() ^ kv.1.id().rotate_left(17));
            }
            1 => {
                let mut it = map.into_keys();
                walk!(it, k => k.chk("into_keys item"), k.class(), k.id());
            }
            _ => {
                let mut it = map.into_values();
                walk!(it, v => v.chk("into_values item"), v.payload(), v.id());
            }
        }
        if armed {
            let (_, fired, _) = fault::end();
            if fired.is_some() || injected {
                self.h.fault_leak = true;
                self.cx.rep.num("faults_injected_into_iterator_walks", 1);
            }
        }
        // what was yielded must be distinct stored entries
        let mut used = vec![false; before.len()];
        for (g, gid) in got.iter().zip(got_ids.iter()) {
            let hit = before.ents.iter().enumerate().find(|(i, e)| {
                !used[*i]
                    && match kind {
                        0 => e.class == *g && (!F::TRACKED || (e.kid ^ e.vid.rotate_left(17)) == *gid),
                        1 => e.class == *g && (!F::TRACKED || e.kid == *gid),
                        _ => e.payload == *g && (!F::TRACKED || e.vid == *gid),
                    }
            });
            match hit {
                Some((i, _)) => used[i] = true,
                None => self.h.viol("C10", "consume-contents", format!("{} yielded an item ({}) that is not a not-yet-yielded entry of the map (repeat or phantom)", kname, g)),
            }
        }
        if forget {
            let remaining = before.len() - got.len().min(before.len());
            self.h.leaked_ok += 2 * remaining;
        }
        let _ = injected;
        s.fr.put(Map::new());
        s.order.clear();
    }

    /// C09: borrowing iterators on the current state
    fn op_iter_probe<F: Fam, const N: usize>(&mut self, s: &mut Sut<F, N>) {
        let kind = self.rng.usize_below(5);
        let kname = ["iter", "iter_mut", "keys", "values", "values_mut"][kind];
        let len = s.model.len();
        let j = self.rng.usize_below(len + 1);
        self.step("iter_probe", || format!("{}() probe, clone/count at step {}", kname, j));
        self.fp_step(s, O_ITER, (kind * 100 + j) as u32, 0);
        if !self.light { self.cx.rep.hit(&format!("{}:{}", kname, fill_name(len, N))); }
        // reference traversal (ids in order) via iter()
        let reference: Vec<(u32, u64, u64, u32)> = s.fr.get().iter().map(|(k, v)| (k.class(), k.id(), v.id(), v.payload())).collect();
        // value address -> class: identifies the entry a ValuesMut item belongs to (addresses are stable while nothing mutates the map)
        let by_addr: Vec<(usize, u32)> = s.fr.get().iter().map(|(k, v)| (addr_of(v), k.class())).collect();
        macro_rules! exact {
            ($it:expr, $step:expr, $what:expr) => {{
                let remaining = len - $step;
                let (lo, hi) = $it.size_hint();
                if $it.len() != remaining || lo != remaining || hi != Some(remaining) {
                    self.h.viol("C09", "iter-len", format!("{} after {} of {} items: len() = {}, size_hint = ({}, {:?})", $what, $step, len, $it.len(), lo, hi));
                }
            }};
        }
        macro_rules! walk_shared {
            ($mk:expr, $proj:expr) => {{
                // full traversal with exact lengths at every step
                let mut it = $mk;
                let mut seq: Vec<(u32, u64)> = Vec::new();
                for step in 0..=len {
                    if step == j {
                        // clone continues identically; count() agrees
                        let c = it.clone();
                        let rest_clone: Vec<(u32, u64)> = c.map($proj).collect();
                        let rest_orig: Vec<(u32, u64)> = it.clone().map($proj).collect();
                        if rest_clone != rest_orig {
                            self.h.viol("C09", "clone-diverges", format!("{}: a clone taken after {} items continues differently", kname, j));
                        }
                        let cnt = it.clone().count();
                        if cnt != len - j {
                            self.h.viol("C09", "count", format!("{}: count() after {} of {} items = {}", kname, j, len, cnt));
                        }
                        // clone_from: an iterator at another position, overwritten in place, continues like its source
                        let adv = (j + 1 + (j * 5) % len.max(1)) % (len + 1); // a different position whenever len > 0 allows
                        let adv = if adv == j { (j + 1) % (len + 1) } else { adv };
                        let mut c = $mk;
                        for _ in 0..adv {
                            c.next();
                        }
                        c.clone_from(&it);
                        let cl = c.len();
                        let rest_cf: Vec<(u32, u64)> = c.map($proj).collect();
                        if rest_cf != rest_orig || cl != len - j {
                            self.h.viol("C09", "clone_from-diverges", format!("{}: an iterator advanced by {} and then overwritten with clone_from(&original after {} of {} items) reports len {} and continues differently", kname, adv, j, len, cl));
                        }
                    }
                    exact!(it, step, kname);
                    match it.next() {
                        Some(x) => {
                            if step >= len {
                                self.h.viol("C09", "iter-extra", format!("{} yields more than len() = {} items", kname, len));
                                break;
                            }
                            seq.push($proj(x));
                        }
                        None => {
                            if step < len {
                                self.h.viol("C09", "iter-short", format!("{} ended after {} of {} items", kname, step, len));
                            }
                            for _ in 0..3 {
                                if it.next().is_some() {
                                    self.h.viol("C09", "iter-not-fused", format!("{} yields Some after None", kname));
                                }
                            }
                            break;
                        }
                    }
                }
                // second traversal: same order
                let again: Vec<(u32, u64)> = $mk.map($proj).collect();
                if again != seq {
                    self.h.viol("C09", "order-unstable", format!("{}: two traversals without mutation differ", kname));
                }
                seq
            }};
        }
        let m = s.fr.get();
        let seq: Vec<(u32, u64)> = match kind {
            0 => walk_shared!(m.iter(), |(k, v): (&F::K, &F::V)| {
                k.chk("iter key");
                v.chk("iter value");
                (k.class(), k.id() ^ v.id().rotate_left(17))
            }),
            2 => walk_shared!(m.keys(), |k: &F::K| {
                k.chk("keys item");
                (k.class(), k.id())
            }),
            3 => walk_shared!(m.values(), |v: &F::V| {
                v.chk("values item");
                (v.payload(), v.id())
            }),
            _ => {
                // iter_mut / values_mut: not Clone; probe by re-creating and advancing
                let mut seq: Vec<(u32, u64)> = Vec::new();
                let mut writes: Vec<(u64, u32)> = Vec::new(); // (value id or class, new payload)
                let wmask = self.rng.next();
                let m = s.fr.get_mut();
                if kind == 1 {
                    let cnt = {
                        let mut it = m.iter_mut();
                        for _ in 0..j {
                            it.next();
                        }
                        it.count()
                    };
                    if cnt != len - j {
                        self.h.viol("C09", "count", format!("iter_mut: count() after {} of {} items = {}", j, len, cnt));
                    }
                    let mut it = m.iter_mut();
                    for step in 0..=len {
                        exact!(it, step, "iter_mut");
                        match it.next() {
                            Some((k, v)) => {
                                if step >= len {
                                    self.h.viol("C09", "iter-extra", "iter_mut yields more than len() items".into());
                                    break;
                                }
                                k.chk("iter_mut key");
                                v.chk("iter_mut value");
                                seq.push((k.class(), k.id() ^ v.id().rotate_left(17)));
                                if (wmask >> (step % 60)) & 1 == 1 {
                                    let np = self.h.payload();
                                    v.set_payload(np);
                                    writes.push((u64::from(k.class()), np));
                                }
                            }
                            None => {
                                if step < len {
                                    self.h.viol("C09", "iter-short", format!("iter_mut ended after {} of {} items", step, len));
                                }
                                for _ in 0..3 {
                                    if it.next().is_some() {
                                        self.h.viol("C09", "iter-not-fused", "iter_mut yields Some after None".into());
                                    }
                                }
                                break;
                            }
                        }
                    }
                    for (class, np) in &writes {
                        if let Some(e) = s.model.get_mut(*class as u32) {
                            e.payload = *np;
                        }
                    }
                } else {
                    let cnt = {
                        let mut it = m.values_mut();
                        for _ in 0..j {
                            it.next();
                        }
                        it.count()
                    };
                    if cnt != len - j {
                        self.h.viol("C09", "count", format!("values_mut: count() after {} of {} items = {}", j, len, cnt));
                    }
                    let mut it = m.values_mut();
                    for step in 0..=len {
                        exact!(it, step, "values_mut");
                        match it.next() {
                            Some(v) => {
                                if step >= len {
                                    self.h.viol("C09", "iter-extra", "values_mut yields more than len() items".into());
                                    break;
                                }
                                v.chk("values_mut item");
                                seq.push((v.payload(), v.id()));
                                if (wmask >> (step % 60)) & 1 == 1 {
                                    let np = self.h.payload();
                                    let va = addr_of(&*v);
                                    v.set_payload(np);
                                    match by_addr.iter().find(|x| x.0 == va) {
                                        Some(x) => writes.push((u64::from(x.1), np)),
                                        None => self.h.viol("C09", "values_mut-foreign-reference", format!("values_mut yielded a reference at {:#x} that is not the value slot of any entry iter() yields", va)),
                                    }
                                }
                            }
                            None => {
                                if step < len {
                                    self.h.viol("C09", "iter-short", format!("values_mut ended after {} of {} items", step, len));
                                }
                                for _ in 0..3 {
                                    if it.next().is_some() {
                                        self.h.viol("C09", "iter-not-fused", "values_mut yields Some after None".into());
                                    }
                                }
                                break;
                            }
                        }
                    }
                    for (class, np) in &writes {
                        if let Some(e) = s.model.get_mut(*class as u32) {
                            e.payload = *np;
                        }
                    }
                }
                self.cx.rep.num("writes_through_iterators", writes.len() as u64);
                seq
            }
        };
        // the yielded sequence must be exactly the stored entries, each once (compare with the
        // reference traversal as multisets of identities)
        let mut want: Vec<(u32, u64)> = reference
            .iter()
            .map(|(c, kid, vid, p)| match kind {
                0 | 1 => (*c, kid ^ vid.rotate_left(17)),
                2 => (*c, *kid),
                _ => (*p, *vid),
            })
            .collect();
        let mut got = seq.clone();
        want.sort_unstable();
        got.sort_unstable();
        if want != got {
            self.h.viol("C09", "iter-contents", format!("{} yielded {:?}; the stored entries are {:?}", kname, got, want));
        }
        // and the stored entries are what the model says (sweep re-checks values after writes)
    }

    /// C09 / C10 / C02: consume an iterator through std adaptor and consumer methods (nth, skip,
    /// step_by, last, fold, count, for_each, take, by_ref) instead of a plain `next()` loop.
    fn op_adaptor<F: Fam, const N: usize>(&mut self, s: &mut Sut<F, N>) {
        use crate::common::{drive_pre, STYLES};
        let kind = self.rng.usize_below(9);
        let kname = ["iter", "keys", "values", "iter_mut", "values_mut", "drain", "into_iter", "into_keys", "into_values"][kind];
        let style = 1 + self.rng.usize_below(STYLES.len() - 1);
        let len = s.model.len();
        let j = self.rng.usize_below(len + 2);
        // half of the probes first step the iterator `pre` times with next() (up to and beyond its end)
        let pre = if self.rng.chance(1, 2) { 0 } else { self.rng.usize_below(len + 2) };
        self.step("adaptor", || format!("{}().{} j={} after {} next() calls", kname, STYLES[style], j, pre));
        self.fp_step(s, O_ADAPT, (kind * 1000 + style * 50 + j) as u32, pre as u64);
        if pre >= len && len > 0 && !self.light { self.cx.rep.hit(&format!("adaptor-on-exhausted:{}", kname)); }
        if !self.light { self.cx.rep.hit(&format!("adaptor:{}:{}", kname, STYLES[style])); }
        // identities in the order of a plain iter() walk: (class, kid, vid)
        let reference: Vec<(u32, u64, u64, u32)> = s.fr.get().iter().map(|(k, v)| (k.class(), k.id(), v.id(), v.payload())).collect();
        let tracked = F::TRACKED;
        let prop = if kind < 5 { "C09" } else { "C10" };
        // got: (class-or-payload, identity) per yielded item
        let mut got: Vec<(u32, u64)> = Vec::new();
        let positions: Vec<usize>;
        let counted: Option<usize>;
        match kind {
            0 => {
                let (items, pos, c) = drive_pre(s.fr.get().iter(), pre, style, j, len);
                got.extend(items.iter().map(|(k, v)| { k.chk("adaptor key"); v.chk("adaptor value"); (k.class(), k.id() ^ v.id().rotate_left(17)) }));
                positions = pos; counted = c;
            }
            1 => {
                let (items, pos, c) = drive_pre(s.fr.get().keys(), pre, style, j, len);
                got.extend(items.iter().map(|k| { k.chk("adaptor key"); (k.class(), k.id()) }));
                positions = pos; counted = c;
            }
            2 => {
                let (items, pos, c) = drive_pre(s.fr.get().values(), pre, style, j, len);
                got.extend(items.iter().map(|v| { v.chk("adaptor value"); (v.payload(), v.id()) }));
                positions = pos; counted = c;
            }
            3 => {
                let (items, pos, c) = drive_pre(s.fr.get_mut().iter_mut(), pre, style, j, len);
                got.extend(items.iter().map(|(k, v)| { k.chk("adaptor key"); v.chk("adaptor value"); (k.class(), k.id() ^ v.id().rotate_left(17)) }));
                positions = pos; counted = c;
            }
            4 => {
                let (items, pos, c) = drive_pre(s.fr.get_mut().values_mut(), pre, style, j, len);
                got.extend(items.iter().map(|v| { v.chk("adaptor value"); (v.payload(), v.id()) }));
                positions = pos; counted = c;
            }
            5 => {
                let (items, pos, c) = drive_pre(s.fr.get_mut().drain(), pre, style, j, len);
                got.extend(items.iter().map(|(k, v)| { k.chk("adaptor key"); v.chk("adaptor value"); (k.class(), k.id() ^ v.id().rotate_left(17)) }));
                positions = pos; counted = c;
                drop(items);
                s.model.clear();
                let m = s.fr.get();
                if m.len() != 0 || m.iter().next().is_some() {
                    self.h.viol("C10", "drain-not-empty", format!("after drain().{} the map is not empty: len() = {}", STYLES[style], m.len()));
                    self.h.failed = true;
                }
            }
            _ => {
                s.model = Dict::new(N);
                let map = s.fr.take();
                match kind {
                    6 => {
                        let (items, pos, c) = drive_pre(map.into_iter(), pre, style, j, len);
                        got.extend(items.iter().map(|(k, v)| { k.chk("adaptor key"); v.chk("adaptor value"); (k.class(), k.id() ^ v.id().rotate_left(17)) }));
                        positions = pos; counted = c;
                    }
                    7 => {
                        let (items, pos, c) = drive_pre(map.into_keys(), pre, style, j, len);
                        got.extend(items.iter().map(|k| { k.chk("adaptor key"); (k.class(), k.id()) }));
                        positions = pos; counted = c;
                    }
                    _ => {
                        let (items, pos, c) = drive_pre(map.into_values(), pre, style, j, len);
                        got.extend(items.iter().map(|v| { v.chk("adaptor value"); (v.payload(), v.id()) }));
                        positions = pos; counted = c;
                    }
                }
                s.fr.put(Map::new());
                s.order.clear();
            }
        }
        if let Some(c) = counted {
            if c != len {
                self.h.viol(prop, "adaptor-count", format!("{}().count() = {} for {} entries", kname, c, len));
            }
            return;
        }
        if got.len() != positions.len() {
            self.h.viol(prop, "adaptor-yield-count", format!("{}().{} (j={}) on {} entries yielded {} items; a plain next() loop semantics gives {}", kname, STYLES[style], j, len, got.len(), positions.len()));
        }
        let ident = |e: &(u32, u64, u64, u32)| -> (u32, u64) {
            match kind {
                0 | 3 | 5 | 6 => (e.0, if tracked { e.1 ^ e.2.rotate_left(17) } else { 0 }),
                1 | 7 => (e.0, if tracked { e.1 } else { 0 }),
                _ => (e.3, if tracked { e.2 } else { 0 }),
            }
        };
        if kind < 5 {
            // borrowing iterators yield in iter() order: exact positions
            let want: Vec<(u32, u64)> = positions.iter().filter_map(|p| reference.get(*p)).map(ident).collect();
            if got != want {
                self.h.viol("C09", "adaptor-items", format!("{}().{} (j={}) yielded {:?}; stepping with next() gives {:?} (as (class or value, identity))", kname, STYLES[style], j, got, want));
            }
        } else {
            // consuming iterators: each yielded item is a distinct stored entry
            let mut used = vec![false; reference.len()];
            for g in &got {
                match reference.iter().enumerate().find(|(i, e)| !used[*i] && ident(e) == *g) {
                    Some((i, _)) => used[i] = true,
                    None => self.h.viol("C10", "adaptor-items", format!("{}().{} yielded {:?}, which is not a not-yet-yielded entry of the map (repeat or phantom)", kname, STYLES[style], g)),
                }
            }
        }
    }

    /// drain the map into a Vec, add a later repeat of one key (fresh key object, new value) and collect it
    /// back: building from pairs is a sequence of inserts — first key object kept, last value wins
    fn op_rebuild<F: Fam, const N: usize>(&mut self, s: &mut Sut<F, N>) {
        let len = s.model.len();
        let via_array = false;
        let _ = via_array;
        let dup_ix = if len > 0 && len < N { Some(self.rng.usize_below(len)) } else { None };
        let tag = self.h.tag();
        let payload = self.h.payload();
        self.step("rebuild", || format!("drain().collect::<Vec>() + repeat of entry #{:?} as (#{}, V{}) -> collect::<Map>()", dup_ix, tag, payload));
        self.fp_step(s, O_REBUILD, dup_ix.map_or(99, |x| x as u32), 0);
        if !self.light { self.cx.rep.hit(&format!("rebuild:{}:{}", if dup_ix.is_some() { "with-repeat" } else { "plain" }, fill_name(len, N))); }
        let mut items: Vec<(F::K, F::V)> = s.fr.get_mut().drain().collect();
        if items.len() != len {
            self.h.viol("C10", "drain-short", format!("drain().collect() gave {} pairs, the map held {}", items.len(), len));
        }
        let mut dup_class = None;
        if let (Some(i), true) = (dup_ix, !items.is_empty()) {
            let i = i.min(items.len() - 1);
            let c = items[i].0.class();
            dup_class = Some(c);
            let at = i + 1 + self.rng.usize_below(items.len() - i);
            items.insert(at, (F::K::mk(c, tag), F::V::mk(payload)));
        }
        let new_vid = dup_class.and_then(|c| items.iter().rev().find(|x| x.0.class() == c).map(|x| x.1.id()));
        let r = fault::catch(|| items.into_iter().collect::<Map<F::K, F::V, N>>());
        match r {
            Caught::Ok(m) => {
                let old = s.fr.take();
                drop(old);
                s.fr.put(m);
                if let Some(c) = dup_class {
                    if let Some(e) = s.model.get_mut(c) {
                        e.payload = payload;
                        e.vid = new_vid.unwrap_or(0);
                    }
                }
            }
            Caught::Panic(msg) => {
                self.h.viol("C16", "panic-although-fits", format!("collect::<Map<_,_,{}>>() of {} pairs with {} distinct keys panicked: {}", N, len + usize::from(dup_class.is_some()), len, msg));
                s.model.clear();
            }
            Caught::Injected(..) => unreachable!(),
        }
        s.order.clear();
    }

    /// C19: Debug / Display of the map and of its iterators
    fn op_fmt_probe<F: Fam, const N: usize>(&mut self, s: &mut Sut<F, N>) {
        let len = s.model.len();
        let j = self.rng.usize_below(len + 1);
        let which = self.rng.usize_below(11);
        self.step("fmt_probe", || format!("fmt probe #{} after {} items", which, j));
        self.fp_step(s, O_FMT, (which * 100 + j) as u32, 0);
        let names = ["map-debug", "map-alt-debug", "map-display", "Iter", "IterMut", "Keys", "Values", "ValuesMut", "IntoIter", "IntoKeys+IntoValues", "Drain"];
        if !self.light { self.cx.rep.hit(&format!("fmt:{}:{}", names[which], fill_name(len, N))); }
        // independently observed entry sequence, in iteration order
        let obs: Vec<(u32, u32, u32)> = s.fr.get().iter().map(|(k, v)| (k.class(), k.tag(), v.payload())).collect();
        if self.rng.chance(1, 3) {
            // a rendering into a sink that fails part-way comes first: it must end in Err, and the renderings
            // checked below must not contain anything it left behind
            use std::fmt::Write as _;
            let mut sink = crate::common::Bounded { left: self.rng.usize_below(24) };
            let r = fault::catch(|| {
                let m = s.fr.get();
                let a = write!(sink, "{}", m).is_err();
                let b = write!(sink, "{:?}", m).is_err();
                (a, b)
            });
            if let Caught::Panic(msg) = r {
                self.h.viol("C19", "failing-sink-panics", format!("formatting into a sink that returns Err panicked: {}", msg));
            }
            if !self.light { self.cx.rep.hit("fmt:after-failing-sink"); }
        }
        let kd = |e: &(u32, u32, u32)| F::K::dbg_render(e.0, e.1);
        let vd = |e: &(u32, u32, u32)| F::V::dbg_render(e.2);
        let pair = |e: &(u32, u32, u32)| format!("({},{})", kd(e), vd(e));
        let check_listing = |this: &mut Self, what: &str, got: String, mut want: Vec<String>| {
            want.sort();
            match parse_listing(&got) {
                Some(g) if g == want => {}
                _ => this.h.viol("C19", "iterator-debug", format!("Debug of {} (j = {}, {} entries stored) is `{}`; the entries it yields afterwards are {:?}", what, j, len, got, want)),
            }
        };
        match which {
            0 | 1 => {
                let alt = which == 1;
                let m = s.fr.get();
                let got = if alt { format!("{:#?}", m) } else { format!("{:?}", m) };
                let ents: Vec<(String, String)> = obs.iter().map(|e| (kd(e), vd(e))).collect();
                let want = expect_map_debug(&ents, alt);
                let refs: Vec<(&F::K, &F::V)> = m.iter().collect();
                let want2 = if alt { format!("{:#?}", StdMap(&refs)) } else { format!("{:?}", StdMap(&refs)) };
                if got != want || got != want2 {
                    self.h.viol("C19", "map-debug", format!("Debug (alternate={}) is `{}`, expected `{}`", alt, got, want));
                }
                // the standard rendering also under formatter flags (width, hex, sign): compare with
                // std's debug_map given the very same format string
                for (flags, g, w) in [
                    ("{:6?}", format!("{:6?}", m), format!("{:6?}", StdMap(&refs))),
                    ("{:#x?}", format!("{:#x?}", m), format!("{:#x?}", StdMap(&refs))),
                    ("{:+?}", format!("{:+?}", m), format!("{:+?}", StdMap(&refs))),
                ] {
                    if g != w {
                        self.h.viol("C19", "map-debug-flags", format!("Debug with `{}` is `{}`; std's debug_map of the same entries gives `{}`", flags, g, w));
                    }
                }
            }
            2 => {
                let got = format!("{}", s.fr.get());
                let mut want = String::from("{");
                for (i, e) in obs.iter().enumerate() {
                    if i > 0 {
                        want.push_str(", ");
                    }
                    want.push_str(&F::K::disp_render(e.0, e.1));
                    want.push_str(": ");
                    want.push_str(&F::V::disp_render(e.2));
                }
                want.push('}');
                if got != want {
                    self.h.viol("C19", "map-display", format!("Display is `{}`, expected `{}`", got, want));
                }
            }
            3..=10 => {
                // The iterator is advanced in one of several ways (plain next() calls, nth, skip, take, step_by,
                // an overshooting nth, ...), rendered, and then drained with next(): what it still yields after
                // the rendering is, by definition, what the rendering had to list.
                const ADV: [&str; 8] = ["next()*j", "nth(j-1)", "by_ref().skip(j).next()", "by_ref().take(j).count()", "by_ref().step_by(2).take(..).count()", "nth(beyond the end)", "by_ref().take(j).last()", "by_ref().take(j).fold()"];
                let style = self.rng.usize_below(ADV.len());
                if !self.light { self.cx.rep.hit(&format!("fmt-advance:{}", ADV[style])); }
                macro_rules! probe {
                    ($what:expr, $mk:expr, $render:expr) => {{
                        let mut it = $mk;
                        match style {
                            0 => { for _ in 0..j { let _ = it.next(); } }
                            1 => { if j > 0 { let _ = it.nth(j - 1); } }
                            2 => { let _ = it.by_ref().skip(j).next(); }
                            3 => { let _ = it.by_ref().take(j).count(); }
                            4 => { let _ = it.by_ref().step_by(2).take((j + 1) / 2).count(); }
                            5 => { let _ = it.nth(j + len); }
                            6 => { let _ = it.by_ref().take(j).last(); }
                            _ => { let _ = it.by_ref().take(j).fold(0usize, |a, _| a + 1); }
                        }
                        let got = format!("{:?}", it);
                        let want: Vec<String> = it.map($render).collect();
                        check_listing(self, &format!("{} advanced by {}", $what, ADV[style]), got, want);
                    }};
                }
                match which {
                    3 => probe!("Iter", s.fr.get().iter(), |(k, v): (&F::K, &F::V)| pair(&(k.class(), k.tag(), v.payload()))),
                    4 => probe!("IterMut", s.fr.get_mut().iter_mut(), |(k, v): (&F::K, &mut F::V)| pair(&(k.class(), k.tag(), v.payload()))),
                    5 => probe!("Keys", s.fr.get().keys(), |k: &F::K| kd(&(k.class(), k.tag(), 0))),
                    6 => probe!("Values", s.fr.get().values(), |v: &F::V| vd(&(0, 0, v.payload()))),
                    7 => probe!("ValuesMut", s.fr.get_mut().values_mut(), |v: &mut F::V| vd(&(0, 0, v.payload()))),
                    _ => {
                        // owner-transferring iterators: run on a clone so the history continues
                        if !s.model.is_empty() || self.rng.chance(1, 4) {
                            let mut c: Map<F::K, F::V, N> = s.fr.get().clone();
                            if which == 8 {
                                probe!("IntoIter", c.into_iter(), |(k, v): (F::K, F::V)| pair(&(k.class(), k.tag(), v.payload())));
                            } else if which == 9 {
                                probe!("IntoKeys", c.clone().into_keys(), |k: F::K| kd(&(k.class(), k.tag(), 0)));
                                probe!("IntoValues", c.into_values(), |v: F::V| vd(&(0, 0, v.payload())));
                            } else {
                                probe!("Drain", c.drain(), |(k, v): (F::K, F::V)| pair(&(k.class(), k.tag(), v.payload())));
                            }
                        }
                    }
                }
            }
            _ => {}
        }
        // formatting never changes the container: the sweep that follows re-checks everything
    }

    /// entry API as a state-reaching operation (equivalence with direct ops is C11's engine)
    fn op_entry<F: Fam, const N: usize>(&mut self, s: &mut Sut<F, N>) {
        use micromap::Entry;
        let class = self.pick_class(s);
        let tag = self.h.tag();
        let payload = self.h.payload();
        let variant = self.rng.usize_below(8);
        let vname = ["or_insert", "or_insert_with", "or_insert_with_key", "or_default", "occupied.insert|vacant.insert", "occupied.remove|vacant.into_key", "occupied.remove_entry|vacant.key", "and_modify.or_insert"][variant];
        self.step("entry", || format!("entry(K{}#{}).{} V{}", class, tag, vname, payload));
        self.fp_step(s, O_ENTRY, class, variant as u64);
        let pre = s.model.get(class).cloned();
        let full = s.model.is_full();
        if !self.light { self.cx.rep.hit(&format!("entry.{}:{}:{}", vname, pos_name(&s.order, class), fill_name(s.model.len(), N))); }
        let k = F::K::mk(class, tag);
        let kid = k.id();
        let m = s.fr.get_mut();
        // outcome: (value payload seen through the returned reference / removed, vid, inserted?, removed?)
        #[derive(Debug)]
        enum Out {
            Ref(u32, u64),
            Removed(u32, u64, Option<(u32, u64)>),
            Replaced(u32, u64),
            VacantKey(u32, u64),
        }
        let mut made_vid = 0u64;
        let r: Caught<Out> = fault::catch(|| {
            let e = m.entry(k);
            let occ = matches!(e, Entry::Occupied(_));
            if occ != pre.is_some() {
                ledger::violation("C11", "entry-classification@entry", format!("entry(class {}) is Occupied={} but the key is present={}", class, occ, pre.is_some()));
            }
            match variant {
                0 => {
                    let v = F::V::mk(payload);
                    made_vid = v.id();
                    let r = e.or_insert(v);
                    r.chk("or_insert ref");
                    Out::Ref(r.payload(), r.id())
                }
                1 => {
                    let r = e.or_insert_with(|| {
                        let v = F::V::mk(payload);
                        made_vid = v.id();
                        v
                    });
                    r.chk("or_insert_with ref");
                    Out::Ref(r.payload(), r.id())
                }
                2 => {
                    let r = e.or_insert_with_key(|kk| {
                        kk.chk("or_insert_with_key key");
                        let v = F::V::mk(payload);
                        made_vid = v.id();
                        v
                    });
                    r.chk("or_insert_with_key ref");
                    Out::Ref(r.payload(), r.id())
                }
                3 => {
                    let r = e.or_default();
                    r.chk("or_default ref");
                    Out::Ref(r.payload(), r.id())
                }
                4 => match e {
                    Entry::Occupied(mut o) => {
                        let v = F::V::mk(payload);
                        made_vid = v.id();
                        let old = o.insert(v);
                        old.chk("OccupiedEntry::insert result");
                        Out::Replaced(old.payload(), old.id())
                    }
                    Entry::Vacant(vac) => {
                        let v = F::V::mk(payload);
                        made_vid = v.id();
                        let r = vac.insert(v);
                        r.chk("VacantEntry::insert ref");
                        Out::Ref(r.payload(), r.id())
                    }
                },
                5 => match e {
                    Entry::Occupied(o) => {
                        let v = o.remove();
                        v.chk("OccupiedEntry::remove result");
                        Out::Removed(v.payload(), v.id(), None)
                    }
                    Entry::Vacant(vac) => {
                        let kk = vac.into_key();
                        kk.chk("VacantEntry::into_key");
                        Out::VacantKey(kk.tag(), kk.id())
                    }
                },
                6 => match e {
                    Entry::Occupied(o) => {
                        let (kk, v) = o.remove_entry();
                        kk.chk("OccupiedEntry::remove_entry key");
                        v.chk("OccupiedEntry::remove_entry value");
                        Out::Removed(v.payload(), v.id(), Some((kk.tag(), kk.id())))
                    }
                    Entry::Vacant(vac) => {
                        let kk = vac.key();
                        kk.chk("VacantEntry::key");
                        Out::VacantKey(kk.tag(), kk.id())
                    }
                },
                _ => {
                    let v = F::V::mk(payload);
                    made_vid = v.id();
                    let r = e.and_modify(|x| {
                        x.chk("and_modify arg");
                        let p = x.payload();
                        x.set_payload(p.wrapping_add(2_000_000));
                    })
                    .or_insert(v);
                    r.chk("and_modify.or_insert ref");
                    Out::Ref(r.payload(), r.id())
                }
            }
        });
        let inserting = matches!(variant, 0 | 1 | 2 | 3 | 7) || (variant == 4);
        let must_panic = pre.is_none() && full && inserting;
        match r {
            Caught::Injected(..) => unreachable!(),
            Caught::Panic(msg) => {
                if !must_panic {
                    self.h.viol("C01", "unexpected-panic", format!("entry().{} panicked: {}", vname, msg));
                }
            }
            Caught::Ok(out) => {
                if must_panic {
                    self.h.viol("C01", "no-panic-on-full", format!("entry().{} added a new key to a full map without panicking", vname));
                    return;
                }
                match (pre, out) {
                    // vacant, inserting variants
                    (None, Out::Ref(p, vid)) if inserting => {
                        let want_p = if variant == 3 { F::V::default_payload() } else { payload };
                        if p != want_p {
                            self.h.viol("C11", "vacant-insert-value", format!("entry().{} on a vacant key returned a reference to {} instead of the inserted {}", vname, p, want_p));
                        }
                        let vid = if variant == 3 { vid } else { made_vid };
                        s.model.push(Ent { class, tag, kid, vid, payload: want_p });
                    }
                    // occupied, or_* variants: reference to the current value, nothing inserted
                    (Some(e), Out::Ref(p, vid)) if matches!(variant, 0 | 1 | 2 | 3) => {
                        if p != e.payload || (F::TRACKED && vid != e.vid) {
                            self.h.viol("C11", "occupied-or-insert", format!("entry().{} on a present key returned {} (object {:#x}); the stored value is {} ({:#x})", vname, p, vid, e.payload, e.vid));
                        }
                        if matches!(variant, 1 | 2) && made_vid != 0 {
                            self.h.viol("C11", "closure-run-when-occupied", format!("entry().{} ran its closure although the key is present", vname));
                        }
                    }
                    (Some(e), Out::Ref(p, _)) if variant == 7 => {
                        let want = e.payload.wrapping_add(2_000_000);
                        if p != want {
                            self.h.viol("C11", "and_modify", format!("and_modify on a present key left {} (expected {})", p, want));
                        }
                        s.model.get_mut(class).unwrap().payload = want;
                    }
                    (Some(e), Out::Replaced(p, vid)) => {
                        if p != e.payload || (F::TRACKED && vid != e.vid) {
                            self.h.viol("C11", "occupied-insert", format!("OccupiedEntry::insert returned {} ({:#x}); the stored value was {} ({:#x})", p, vid, e.payload, e.vid));
                        }
                        let me = s.model.get_mut(class).unwrap();
                        me.payload = payload;
                        me.vid = made_vid;
                    }
                    (Some(e), Out::Removed(p, vid, key)) => {
                        if p != e.payload || (F::TRACKED && vid != e.vid) {
                            self.h.viol("C11", "occupied-remove", format!("OccupiedEntry::remove* returned {} ({:#x}); the stored value was {} ({:#x})", p, vid, e.payload, e.vid));
                        }
                        if let (true, Some((t, id))) = (F::IDENT, key) {
                            if t != e.tag || id != e.kid {
                                self.h.viol("C12", "removed-key-identity", format!("OccupiedEntry::remove_entry returned key tag {} id {:#x}; stored key was tag {} id {:#x}", t, id, e.tag, e.kid));
                            }
                        }
                        s.model.remove(class);
                    }
                    (None, Out::VacantKey(t, id)) => {
                        if F::IDENT && (t != tag || id != kid) {
                            self.h.viol("C11", "vacant-key", format!("VacantEntry::key/into_key exposes tag {} id {:#x}, the supplied key was tag {} id {:#x}", t, id, tag, kid));
                        }
                    }
                    (pre, out) => {
                        self.h.viol("C11", "entry-shape", format!("entry().{}: outcome {:?} does not fit key-present={}", vname, out, pre.is_some()));
                    }
                }
            }
        }
    }

    /// C15: clone with an event window, then both copies live on independently
    fn op_fork<F: Fam, const N: usize>(&mut self, s: &mut Sut<F, N>) -> Option<Sut<F, N>> {
        self.step("fork", || "clone()".into());
        self.fp_step(s, O_FORK, 0, 0);
        if !self.light { self.cx.rep.hit(&format!("clone:{}", fill_name(s.model.len(), N))); }
        let cc0 = F::clone_counts();
        ledger::log_start();
        let c: Map<F::K, F::V, N> = s.fr.get().clone();
        let log = ledger::log_take();
        if let (Some(a), Some(b)) = (cc0, F::clone_counts()) {
            let n = s.model.len() as u64;
            if b.0 - a.0 != n || b.1 - a.1 != n {
                self.h.viol("C15", "clone-count", format!("clone() of {} entries called K::clone {} times and V::clone {} times (each must be exactly once per entry)", n, b.0 - a.0, b.1 - a.1));
            }
            // every element of the copy is the result of a Clone::clone call (fresh serial), not a bitwise duplicate
            for (k, v) in c.iter() {
                if s.fr.get().iter().any(|(ok, ov)| ok.serial() == k.serial() || ov.serial() == v.serial()) {
                    self.h.viol("C15", "clone-bitwise-copy", format!("clone(): the copy's entry of class {} carries the same serial as the original: it was duplicated without calling Clone::clone", k.class()));
                }
            }
        }
        let mut model = Dict::new(N);
        if F::TRACKED {
            let mut kclones: Vec<(u64, u64)> = Vec::new();
            let mut vclones: Vec<(u64, u64)> = Vec::new();
            for ev in &log {
                match ev {
                    Ev::Clone { from, to, kind } if *kind == KIND_KEY => kclones.push((*from, *to)),
                    Ev::Clone { from, to, kind } if *kind == KIND_VAL => vclones.push((*from, *to)),
                    Ev::Clone { .. } => {}
                    Ev::New { id, .. } => self.h.viol("C15", "clone-creates-object", format!("clone() created a fresh object {:#x} (not by cloning)", id)),
                    Ev::Drop { id, .. } => self.h.viol("C15", "clone-drops-object", format!("clone() destroyed object {:#x}", id)),
                    Ev::Eq { .. } | Ev::Borrow { .. } | Ev::Fmt { .. } => {}
                }
            }
            for e in &s.model.ents {
                let kc: Vec<&(u64, u64)> = kclones.iter().filter(|x| x.0 == e.kid).collect();
                let vc: Vec<&(u64, u64)> = vclones.iter().filter(|x| x.0 == e.vid).collect();
                if kc.len() != 1 || vc.len() != 1 {
                    self.h.viol("C15", "clone-count", format!("clone(): key of class {} cloned {} times, its value {} times (each must be exactly once)", e.class, kc.len(), vc.len()));
                } else {
                    model.push(Ent { class: e.class, tag: e.tag, kid: kc[0].1, vid: vc[0].1, payload: e.payload });
                }
            }
            if kclones.len() != s.model.len() || vclones.len() != s.model.len() {
                self.h.viol("C15", "clone-count", format!("clone() of {} entries made {} key clones and {} value clones", s.model.len(), kclones.len(), vclones.len()));
            }
            // clones of anything that is not stored
            for (from, _) in kclones.iter().chain(vclones.iter()) {
                if !s.model.ents.iter().any(|e| e.kid == *from || e.vid == *from) {
                    self.h.viol("C15", "clone-of-foreign-object", format!("clone() cloned object {:#x} which is not stored in the original", from));
                }
            }
        } else {
            model = s.model.clone();
        }
        // equal to the original (Map == Map)
        if !(&c == s.fr.get()) || !(s.fr.get() == &c) {
            self.h.viol("C15", "clone-not-equal", "clone() != original".into());
        }
        let t = Sut { fr: Frame::boxed(c), model, order: Vec::new() };
        Some(t)
    }


    /// C15: `target.clone_from(&source)` between the two live copies
    fn op_clone_from<F: Fam, const N: usize>(&mut self, suts: &mut [Sut<F, N>], ix: usize) {
        let (tl, sl) = (suts[ix].model.len(), suts[1 - ix].model.len());
        self.step("clone_from", || format!("copy#{}.clone_from(copy#{}) target holds {}, source holds {}", ix, 1 - ix, tl, sl));
        self.cx.rep.evaluations += 1;
        if !self.light { self.cx.rep.hit(&format!("clone_from:{}", if tl > sl { "target-longer" } else if tl == sl { "same-length" } else { "target-shorter" })); }
        let (a, b) = suts.split_at_mut(1);
        let (target, source) = if ix == 0 { (&mut a[0], &b[0]) } else { (&mut b[0], &a[0]) };
        let cc0 = F::clone_counts();
        ledger::log_start();
        target.fr.get_mut().clone_from(source.fr.get());
        let log = ledger::log_take();
        let n = source.model.len() as u64;
        if let (Some(x), Some(y)) = (cc0, F::clone_counts()) {
            if y.0 - x.0 != n || y.1 - x.1 != n {
                self.h.viol("C15", "clone-count", format!("clone_from a source of {} entries called K::clone {} times and V::clone {} times", n, y.0 - x.0, y.1 - x.1));
            }
        }
        let mut model = Dict::new(N);
        if F::TRACKED {
            let kc: Vec<(u64, u64)> = log.iter().filter_map(|e| if let Ev::Clone { from, to, kind } = e { if *kind == KIND_KEY { Some((*from, *to)) } else { None } } else { None }).collect();
            let vc: Vec<(u64, u64)> = log.iter().filter_map(|e| if let Ev::Clone { from, to, kind } = e { if *kind == KIND_VAL { Some((*from, *to)) } else { None } } else { None }).collect();
            if kc.len() as u64 != n || vc.len() as u64 != n {
                self.h.viol("C15", "clone-count", format!("clone_from a source of {} entries made {} key clones and {} value clones", n, kc.len(), vc.len()));
            }
            for e in &source.model.ents {
                let k: Vec<&(u64, u64)> = kc.iter().filter(|x| x.0 == e.kid).collect();
                let v: Vec<&(u64, u64)> = vc.iter().filter(|x| x.0 == e.vid).collect();
                if k.len() == 1 && v.len() == 1 {
                    model.push(Ent { class: e.class, tag: e.tag, kid: k[0].1, vid: v[0].1, payload: e.payload });
                } else {
                    self.h.viol("C15", "clone-count", format!("clone_from: key of class {} cloned {} times, its value {} times", e.class, k.len(), v.len()));
                }
            }
        } else {
            model = source.model.clone();
        }
        target.model = model;
        if !(target.fr.get() == source.fr.get()) || !(source.fr.get() == target.fr.get()) {
            self.h.viol("C15", "clone-not-equal", format!("after clone_from the target (len {}) != the source (len {})", target.fr.get().len(), source.fr.get().len()));
        }
    }

    // -----------------------------------------------------------------------------------------

    fn one_op<F: Fam, const N: usize>(&mut self, suts: &mut Vec<Sut<F, N>>, which: usize) {
        let ix = if suts.len() > 1 { self.rng.usize_below(suts.len()) } else { 0 };
        let op = self.rng.weighted(&self.cfg.weights);
        let _ = which;
        {
            macro_rules! s { () => { &mut suts[ix] } }
            match op {
                O_INSERT | O_IKV | O_CHECKED | O_UNCHECKED => self.op_insert(s!(), op),
                O_GETMUT => self.op_get_mut(s!()),
                O_INDEX => self.op_index(s!(), false),
                O_INDEXMUT => self.op_index(s!(), true),
                O_REMOVE => self.op_remove(s!(), false),
                O_REMOVE_ENTRY => self.op_remove(s!(), true),
                O_RETAIN => self.op_retain(s!()),
                O_CLEAR => self.op_clear(s!()),
                O_DRAIN => self.op_drain(s!()),
                O_CONSUME => self.op_consume(s!()),
                O_ITER => self.op_iter_probe(s!()),
                O_FMT => self.op_fmt_probe(s!()),
                O_ENTRY => self.op_entry(s!()),
                O_ADAPT => self.op_adaptor(s!()),
                O_REBUILD => self.op_rebuild(s!()),
                O_FORK => {
                    if suts.len() < 2 {
                        let t = self.op_fork(&mut suts[ix]);
                        if let Some(t) = t {
                            suts.push(t);
                        }
                    } else if self.rng.chance(1, 2) {
                        self.op_clone_from(&mut suts[..], ix);
                    } else {
                        // destroy one copy: the other must be untouched (checked by the sweep)
                        self.step("drop-copy", || format!("drop copy #{}", ix));
                        self.cx.rep.evaluations += 1;
                        self.cx.rep.hit("drop-copy");
                        let dead = suts.remove(ix);
                        if self.rng.chance(1, 3) {
                            // the container goes out of scope because a panic unwinds through its owner's frame
                            self.cx.rep.hit("drop-copy:by-unwinding");
                            let _ = fault::catch(move || {
                                let _hold = dead;
                                panic!("the owner of the container panics");
                            });
                        } else {
                            drop(dead);
                        }
                    }
                }
                _ => unreachable!(),
            }
        }
        // sweep EVERY live container after every step: cross-talk between copies is visible
        let mut total = 0;
        for s in suts.iter_mut() {
            if self.h.failed {
                // another oracle has fired in this step: the model-free invariants are still evaluated
                self.wellformed(s, "after a step in which another oracle fired");
            } else {
                self.sweep(s);
            }
            total += s.model.len();
        }
        self.conservation::<F>(total, "after step");
    }

    /// The states a history starts from are not only `Map::new()`: every constructor gives a reachable
    /// state (`default`, `with_capacity`, `From<[(K, V); N]>` with and without repeated keys, `from_iter`).
    /// The model follows the documented bulk semantics (first key object stays, last value wins).
    fn construct<F: Fam, const N: usize>(&mut self, s: &mut Sut<F, N>) {
        let which = self.rng.usize_below(4);
        let name = ["Map::default", "Map::with_capacity", "Map::from(array)", "Map::from_iter"][which];
        self.step("construct", || format!("{}()", name));
        if !self.light { self.cx.rep.hit(&format!("construct:{}:{}", name, if N == 0 { "N=0" } else { "N>0" })); }
        let old = s.fr.take();
        drop(old);
        let mut model = Dict::new(N);
        let mut pairs: Vec<(u32, u32, u32)> = Vec::new(); // class, tag, payload
        let count = match which {
            2 => N,
            3 => if N == 0 { 0 } else { self.rng.usize_below(2 * N + 2) },
            _ => 0,
        };
        for _ in 0..count {
            let mut class = <F::K as KeyF>::norm(1 + self.rng.below(u64::from(self.universe)) as u32);
            if model.find(class).is_none() && model.is_full() {
                // from_iter must not overflow here (that is C03's business): repeat a present class instead
                class = model.ents[self.rng.usize_below(model.len())].class;
            }
            let (tag, payload) = (self.h.tag(), self.h.payload());
            pairs.push((class, tag, payload));
            if model.find(class).is_none() {
                model.push(Ent { class, tag, kid: 0, vid: 0, payload });
            }
        }
        let mut items: Vec<(F::K, F::V)> = pairs.iter().map(|(c, t, p)| (F::K::mk(*c, *t), F::V::mk(*p))).collect();
        // identities: first key object of a class, last value object of a class
        for (i, (c, _, p)) in pairs.iter().enumerate() {
            let e = model.get_mut(*c).expect("class was pushed");
            if e.kid == 0 && e.tag == pairs[i].1 {
                e.kid = items[i].0.id();
            }
            e.vid = items[i].1.id();
            e.payload = *p;
        }
        let built: Caught<Map<F::K, F::V, N>> = fault::catch(|| match which {
            0 => Map::default(),
            1 => Map::with_capacity(N),
            2 => {
                let mut it = items.drain(..);
                let arr: [(F::K, F::V); N] = core::array::from_fn(|_| it.next().expect("N items were prepared"));
                drop(it);
                Map::from(arr)
            }
            _ => items.drain(..).collect(),
        });
        match built {
            Caught::Ok(m) => {
                s.fr.put(m);
                s.model = model;
            }
            Caught::Panic(msg) => {
                self.h.viol("C01", "constructor-panics", format!("{} over {:?} (class, tag, value) panicked: {}", name, pairs, msg));
                self.h.viol("C16", "constructor-panics", format!("{} over {:?} panicked: {}", name, pairs, msg));
                s.fr.put(Map::new());
                s.model = Dict::new(N);
                self.h.failed = true;
                return;
            }
            Caught::Injected(..) => unreachable!(),
        }
        self.sweep(s);
        self.wellformed(s, "after construction");
    }

    pub fn run_history<F: Fam, const N: usize>(&mut self, max_steps: usize) {
        ledger::reset();
        self.h.live_base = F::live_objects().unwrap_or(0);
        let mut suts: Vec<Sut<F, N>> = vec![Sut::new()];
        self.sweep(&mut suts[0]);
        if N <= 32 && self.rng.chance(1, 2) {
            if let Caught::Panic(msg) = fault::catch(|| self.construct::<F, N>(&mut suts[0])) {
                let text = format!("observing a freshly constructed map panicked: {}", msg);
                self.h.viol("C01", "unexpected-panic", text.clone());
                if self.cx.prop != "C01" {
                    let p = self.cx.prop.clone();
                    self.h.viol(&p, "unexpected-panic", text);
                }
                for mut s in suts.drain(..) {
                    s.fr.forget();
                }
                let ops = self.h.ops.clone();
                let (hist, fam) = (self.h.hist, F::NAME);
                let mem_prop = crate::common::mem_prop(&self.cx.prop);
                self.cx.rep.absorb_violations(mem_prop, &|| {
                    let mut v = vec![format!("history {} family={} N={}", hist, fam, N)];
                    v.extend(ops.iter().cloned());
                    v
                });
                return;
            }
        }
        if N > 32 {
            // large capacities: start from a nearly full map (a random history alone rarely climbs beyond
            // a few dozen entries), so that slots beyond the 32nd / 64th are in play
            let target = N - self.rng.usize_below(9).min(N);
            let mut classes: Vec<u32> = (1..=self.universe).collect();
            self.rng.shuffle(&mut classes);
            ledger::set_ctx(self.h.hist, 0, "prefill");
            for c in classes.into_iter().take(target) {
                let (tag, payload) = (self.h.tag(), self.h.payload());
                let (k, v) = (F::K::mk(c, tag), F::V::mk(payload));
                let (kid, vid) = (k.id(), v.id());
                suts[0].fr.get_mut().insert(k, v);
                suts[0].model.push(Ent { class: c, tag, kid, vid, payload });
            }
            self.h.ops.push(format!("prefill with {} entries", target));
            self.sweep(&mut suts[0]);
        }
        // capacities beyond 32 / 64 need histories long enough to fill them
        let steps = if N > 256 { self.rng.length(N / 2, N) } else if N > 32 { self.rng.length(3 * N, (5 * N).max(max_steps)) } else { self.rng.length(8, max_steps) };
        let mut escaped = false;
        for i in 0..steps {
            // safety net: a panic that escapes an operation the model expects to return (the individual
            // operations catch the panics the model predicts)
            // one step in sixty runs INSIDE A DESTRUCTOR WHILE THE THREAD IS UNWINDING (`std::thread::panicking()`
            // is true throughout): an operation is an operation, whenever it is called
            let during_unwind = !self.light && self.rng.chance(1, 60);
            if during_unwind {
                self.cx.rep.hit("step-during-unwind");
            }
            let stepped = fault::catch(|| {
                if during_unwind {
                    struct OnUnwind<G: FnMut()>(G);
                    impl<G: FnMut()> Drop for OnUnwind<G> {
                        fn drop(&mut self) {
                            (self.0)()
                        }
                    }
                    let _g = OnUnwind(|| self.one_op(&mut suts, i));
                    panic!("<<unwind-carrier>>");
                } else {
                    self.one_op(&mut suts, i)
                }
            });
            let stepped = match stepped {
                Caught::Panic(m) if during_unwind && m == "<<unwind-carrier>>" => Caught::Ok(()),
                other => other,
            };
            match stepped {
                Caught::Ok(()) => {}
                Caught::Panic(msg) => {
                    let (_, _, op) = ledger::ctx();
                    let text = format!("`{}` panicked although the reference model says the call returns: {}", op, msg);
                    self.h.viol("C01", "unexpected-panic", text.clone());
                    if self.cx.prop != "C01" {
                        let p = self.cx.prop.clone();
                        self.h.viol(&p, "unexpected-panic", text);
                    }
                    escaped = true;
                }
                Caught::Injected(..) => {
                    self.h.viol("C01", "harness", "an injected fault escaped its operation".into());
                    escaped = true;
                }
            }
            if escaped || self.h.must_stop() {
                break;
            }
        }
        if escaped {
            // the containers may be half-modified: do not touch them again
            for mut s in suts.drain(..) {
                s.fr.forget();
            }
        }
        let ops = self.h.ops.clone();
        // final drops and balance
        ledger::set_ctx(self.h.hist, self.h.step + 1, "final-drop");
        let failed = self.h.failed || ledger::viol_total() > 0;
        if failed && !F::TRACKED {
            // untracked (heap-owning) elements and a state we no longer understand: do not run
            // destructors on possibly corrupt containers
            for mut s in suts.drain(..) {
                s.fr.forget();
            }
        }
        suts.clear();
        if !failed {
            self.conservation::<F>(0, "after the final drop of every container");
        }
        let hist = self.h.hist;
        let fam = F::NAME;
        let profile = self.cfg.profile;
        let mem_prop = crate::common::mem_prop(&self.cx.prop);
        self.cx.rep.absorb_violations(mem_prop, &|| {
            let mut v = vec![format!("history {} family={} N={} profile={}", hist, fam, N, profile)];
            v.extend(ops.iter().cloned());
            v
        });
        if self.cx.rep.samples.len() < 3 && !self.h.ops.is_empty() {
            let n = self.h.ops.len().min(14);
            self.cx.rep.sample(format!("hist {} fam={} N={} profile={}: {}{}", hist, fam, N, profile, self.h.ops[..n].join("; "), if self.h.ops.len() > n { "; …" } else { "" }));
        }
    }
}

/// Maps whose PAIR type is zero-sized (`Map<Z, (), N>`): every pointer into the slot array is the same
/// address, so cursor arithmetic (`ptr.add(len) == ptr`) cannot tell "nothing left" from "everything
/// left".  With `Z == Z` answering false every insert appends, so the map holds several zero-sized
/// pairs.  Each finding is reported for every property whose statement it contradicts.
pub fn zst_pair_probe(cx: &mut Ctx, hist: u64) {
    use support::elems::{z_live, z_set_eq, Z};
    fn pv(props: &[&str], what: &str, msg: String) {
        let (_, _, op) = ledger::ctx();
        for p in props {
            ledger::violation(p, format!("zst-pairs:{}@{}", what, op), msg.clone());
        }
    }
    let mut rng = cx.hist_rng(hist ^ 0x2057_0A17);
    let base = z_live();
    let r = fault::catch(|| {
        z_set_eq(false);
        let k = 1 + rng.usize_below(4);
        let fill = |n: usize| {
            let mut m: Map<Z, (), 4> = Map::new();
            for _ in 0..n {
                m.insert(Z::new(), ());
            }
            m
        };
        ledger::set_ctx(hist, 1, "len/iter(zero-sized pairs)");
        let mut m = fill(k);
        if m.len() != k || m.iter().count() != k || m.iter().len() != k || m.keys().count() != k || m.values().len() != k || m.iter_mut().count() != k || m.values_mut().count() != k {
            pv(&["C01", "C05", "C09"], "len-vs-iteration", format!("{} zero-sized pairs inserted: len() = {}, iter().count() = {}, iter().len() = {}, keys {} values {} iter_mut {} values_mut {}", k, m.len(), m.iter().count(), m.iter().len(), m.keys().count(), m.values().len(), m.iter_mut().count(), m.values_mut().count()));
        }
        ledger::set_ctx(hist, 2, "drain(zero-sized pairs)");
        let j = rng.usize_below(k + 1);
        {
            let mut d = m.drain();
            let announced = d.len();
            let mut got = 0;
            for _ in 0..j {
                if d.next().is_some() {
                    got += 1;
                }
            }
            let left = d.len();
            let rest = d.count();
            if announced != k || got != j || left != k - j || rest != k - j {
                pv(&["C10", "C01", "C09"], "drain", format!("drain() of {} zero-sized pairs: len() {} at the start, {} of {} next() calls yielded, len() {} afterwards, count() of the rest {}", k, announced, got, j, left, rest));
            }
        }
        if !m.is_empty() || m.iter().next().is_some() {
            pv(&["C10", "C01"], "drain-not-empty", format!("after drain() the map of zero-sized pairs has len() = {}", m.len()));
        }
        if z_live() != base {
            pv(&["C02", "C10"], "drain-conservation", format!("{} zero-sized keys alive after a complete drain of {} pairs (expected 0)", z_live() - base, k));
        }
        drop(m);
        ledger::set_ctx(hist, 3, "into_iter(zero-sized pairs)");
        let (a, b, c) = (fill(k).into_iter().count(), fill(k).into_keys().count(), fill(k).into_values().count());
        let mut it = fill(k).into_iter();
        let l0 = it.len();
        let first = it.next().is_some();
        let l1 = it.len();
        drop(it);
        if a != k || b != k || c != k || l0 != k || !first || l1 != k - 1 {
            pv(&["C10"], "into_iter", format!("{} zero-sized pairs: into_iter().count() = {}, into_keys {}, into_values {}, len() {} then {} after one next()", k, a, b, c, l0, l1));
        }
        ledger::set_ctx(hist, 5, "insert_unchecked(zero-sized pairs)");
        {
            // all-equal keys: the second insert_unchecked finds the key (inside the contract: key present)
            z_set_eq(true);
            let mut m: Map<Z, (), 4> = Map::new();
            // SAFETY: the map is not full
            let first = unsafe { m.insert_unchecked(Z::new(), ()) };
            // SAFETY: the key is present
            let second = unsafe { m.insert_unchecked(Z::new(), ()) };
            let third = m.insert(Z::new(), ());
            if first.is_some() || second.is_none() || third.is_none() || m.len() != 1 || m.iter().count() != 1 {
                pv(&["C18", "C05"], "insert_unchecked", format!("zero-sized pairs, all keys equal: insert_unchecked returned {:?} then {:?}, insert {:?}; len() = {}, iter() yields {} (insert gives None, Some(()), Some(()), 1, 1)", first, second, third, m.len(), m.iter().count()));
            }
            drop(m);
            z_set_eq(false);
        }
        ledger::set_ctx(hist, 4, "retain/clone/clear(zero-sized pairs)");
        let mut m = fill(k);
        let mut calls = 0;
        let keep = rng.usize_below(k + 1);
        m.retain(|_, _| {
            calls += 1;
            calls <= keep
        });
        if calls != k || m.len() != keep {
            pv(&["C01"], "retain", format!("retain over {} zero-sized pairs keeping the first {} verdicts: {} predicate calls, len() = {}", k, keep, calls, m.len()));
        }
        let c = m.clone();
        if c.len() != m.len() || c.iter().count() != m.len() {
            pv(&["C15"], "clone", format!("clone of {} zero-sized pairs has len() = {} and yields {}", m.len(), c.len(), c.iter().count()));
        }
        drop(c);
        m.clear();
        if !m.is_empty() {
            pv(&["C01"], "clear", format!("clear() leaves len() = {}", m.len()));
        }
        drop(m);
        if z_live() != base {
            pv(&["C02"], "conservation", format!("{} zero-sized keys alive after every container was dropped", z_live() - base));
        }
    });
    z_set_eq(true);
    if let Caught::Panic(msg) = r {
        let p = cx.prop.clone();
        pv(&["C01", &p], "unexpected-panic", format!("an operation on a map of zero-sized pairs panicked: {}", msg));
    }
    cx.rep.hit("zst-pairs");
    cx.rep.evaluations += 1;
    if ledger::viol_total() > 0 {
        let p = crate::common::mem_prop(&cx.prop);
        cx.rep.absorb_violations(p, &|| vec![format!("zero-sized pair probe, history {}", hist)]);
    }
}

/// C19: maps whose VALUE type is zero-sized (`Map<u32, (), N>`, `Map<Z, (), N>`) must still render as
/// maps (`key: ()` entries), in the plain and the alternate form.
pub fn unit_value_fmt_probe(cx: &mut Ctx, hist: u64) {
    use support::elems::Z;
    ledger::set_ctx(hist, 0, "fmt(unit-valued map)");
    let mut rng = cx.hist_rng(hist ^ 0x5EED_F00D);
    let n = rng.usize_below(5);
    let mut m: Map<u32, (), 4> = Map::new();
    for i in 0..n {
        m.insert(10 + (rng.below(6) as u32) + i as u32 * 10, ());
    }
    if n > 1 && rng.chance(1, 2) {
        let k = *m.keys().next().unwrap();
        m.remove(&k);
    }
    let refs: Vec<(&u32, &())> = m.iter().collect();
    for alt in [false, true] {
        cx.rep.evaluations += 1;
        let got = if alt { format!("{:#?}", m) } else { format!("{:?}", m) };
        let want = if alt { format!("{:#?}", StdMap(&refs)) } else { format!("{:?}", StdMap(&refs)) };
        let ents: Vec<(String, String)> = refs.iter().map(|(k, _)| (format!("{:?}", k), "()".to_string())).collect();
        let want2 = expect_map_debug(&ents, alt);
        if got != want || got != want2 {
            ledger::violation("C19", "map-debug@fmt(unit-valued map)", format!("Debug (alternate={}) of a Map<u32,(),4> holding {:?} is `{}`, expected the map rendering `{}`", alt, refs.iter().map(|x| *x.0).collect::<Vec<_>>(), got, want));
        }
    }
    let mut z: Map<Z, (), 2> = Map::new();
    if rng.chance(2, 3) {
        z.insert(Z::new(), ());
    }
    let zr: Vec<(&Z, &())> = z.iter().collect();
    for alt in [false, true] {
        cx.rep.evaluations += 1;
        let got = if alt { format!("{:#?}", z) } else { format!("{:?}", z) };
        let want = if alt { format!("{:#?}", StdMap(&zr)) } else { format!("{:?}", StdMap(&zr)) };
        if got != want {
            ledger::violation("C19", "map-debug@fmt(unit-valued map)", format!("Debug (alternate={}) of a Map<Z,(),2> with {} entries is `{}`, expected `{}`", alt, zr.len(), got, want));
        }
    }
    cx.rep.hit("fmt:unit-valued-map");
    if ledger::viol_total() > 0 {
        cx.rep.absorb_violations("C19", &|| vec![format!("unit-valued map rendering probe, history {}", hist)]);
    }
}

/// Zero-sized VALUE types of different alignments: `()` (align 1), an over-aligned marker (align 16: the pair
/// stride is 16 bytes although key + value occupy 4) and `[u64; 0]` (align 8).  Debug of the map and of every
/// iterator kind, fresh and partly consumed, against what the iterator still yields afterwards.
#[derive(Clone, Copy, Debug, Default, PartialEq)]
#[repr(align(16))]
pub struct Marker16;
pub fn zero_sized_value_fmt_probe<V: Copy + Default + std::fmt::Debug + 'static>(cx: &mut Ctx, hist: u64, vname: &str) {
    ledger::set_ctx(hist, 0, "fmt(zero-sized values)");
    let mut rng = cx.hist_rng(hist ^ 0x0A11_6E0D);
    let n = rng.usize_below(5);
    let mut m: Map<u32, V, 4> = Map::new();
    for i in 0..n {
        m.insert(0xA1 + 0x11 * (i as u32), V::default());
    }
    if n > 2 && rng.chance(1, 2) {
        let k = *m.keys().next().unwrap();
        m.remove(&k);
    }
    let len = m.len();
    let refs: Vec<(&u32, &V)> = m.iter().collect();
    for alt in [false, true] {
        cx.rep.evaluations += 1;
        let got = if alt { format!("{:#?}", m) } else { format!("{:?}", m) };
        let want = if alt { format!("{:#?}", StdMap(&refs)) } else { format!("{:?}", StdMap(&refs)) };
        if got != want {
            ledger::violation("C19", "map-debug@fmt(zero-sized values)", format!("Debug (alternate={}) of a Map<u32,{},4> with {} entries is `{}`, expected `{}`", alt, vname, len, got, want));
        }
    }
    let j = rng.usize_below(len + 2);
    macro_rules! probe {
        ($what:expr, $mk:expr) => {{
            let mut it = $mk;
            for _ in 0..j {
                let _ = it.next();
            }
            cx.rep.evaluations += 1;
            let got = format!("{:?}", it);
            let mut want: Vec<String> = it.map(|x| format!("{:?}", x).chars().filter(|c| !c.is_whitespace()).collect()).collect();
            want.sort();
            match parse_listing(&got) {
                Some(g) if g == want => {}
                _ => ledger::violation("C19", "iterator-debug@fmt(zero-sized values)", format!("Debug of {} of a Map<u32,{},4> with {} entries after {} next() calls is `{}`; the entries it yields afterwards are {:?}", $what, vname, len, j, got, want)),
            }
        }};
    }
    probe!("Keys", m.keys());
    probe!("Values", m.values());
    probe!("Iter", m.iter());
    probe!("IntoKeys", m.clone().into_keys());
    probe!("IntoValues", m.clone().into_values());
    probe!("IntoIter", m.clone().into_iter());
    {
        let mut c = m.clone();
        probe!("Drain", c.drain());
    }
    {
        let mut c = m.clone();
        probe!("ValuesMut", c.values_mut());
        probe!("IterMut", c.iter_mut());
    }
    cx.rep.hit("fmt:zero-sized-values");
    if ledger::viol_total() > 0 {
        cx.rep.absorb_violations("C19", &|| vec![format!("zero-sized value rendering probe ({}), history {}", vname, hist)]);
    }
}

pub fn required_rows(prop: &str) -> Vec<&'static str> {
    match prop {
        "C01" => vec!["insert", "insert_key_value", "checked_insert", "get_mut", "index", "index_mut", "remove", "remove_entry", "retain", "clear", "drain"],
        "C02" => vec!["insert", "remove", "retain", "clear", "drain", "into_iter", "into_keys", "into_values", "clone", "entry."],
        "C05" => vec!["insert", "checked_insert", "remove", "retain", "entry.", "index"],
        "C09" => vec!["iter:", "iter_mut:", "keys:", "values:", "values_mut:", "adaptor:"],
        "C10" => vec!["drain", "into_iter", "into_keys", "into_values"],
        "C03" => vec!["insert", "entry."],
        "C11" => vec!["entry."],
        "C12" => vec!["insert", "insert_key_value", "checked_insert", "remove_entry", "entry.", "rebuild"],
        "C15" => vec!["clone", "drop-copy", "clone_from"],
        "C18" => vec!["insert_unchecked"],
        "C19" => vec!["fmt:map-debug", "fmt:map-alt-debug", "fmt:map-display", "fmt:Iter:", "fmt:IterMut", "fmt:Keys", "fmt:Values:", "fmt:ValuesMut", "fmt:IntoIter", "fmt:IntoKeys", "fmt:Drain"],
        _ => vec![],
    }
}

/// Run one history of the map engine for family `F` and capacity `N`.
pub fn history<F: Fam, const N: usize>(cx: &mut Ctx, hist: u64, mut rng: Rng, max_steps: usize) {
    let allow_forget = !cx.args.flag("no-forget");
    let prop = cx.prop.clone();
    let cfg = make_cfg(&prop, &mut rng, allow_forget);
    let mut e = Engine {
        cx,
        h: Hist::new(hist),
        rng,
        cfg,
        universe: if <F::K as KeyF>::norm(7) != 7 { 1 } else { N as u32 + 3 },
        light: false,
        focus: 1,
        quiet: false,
    };
    e.quiet = e.rng.chance(1, 4);
    if e.quiet {
        e.cx.rep.hit("quiet-history");
    }
    e.light = e.cx.args.flag("light");
    e.h.retag_unchecked = e.cx.prop == "C18";
    e.h.own_prop = e.cx.prop.clone();
    e.h.tag_mod = F::TAG_MOD;
    if e.cx.prop == "C11" {
        // an entry step is judged against the reference model of the DIRECT operations (insert-if-absent and
        // look up, get_mut, insert, remove, remove_entry); what disagrees with it in that very step - results,
        // the dictionary afterwards, the stored key object, any other entry - is what C11 rules out
        for from in ["C01", "C05", "C12"] {
            e.h.dual.push((from, "entry", "C11"));
        }
    }
    if e.cx.prop == "C09" {
        // an iter_probe step only walks borrowing iterators and writes through iter_mut / values_mut: a
        // lookup or traversal that disagrees with the model in that very step is "writes made through
        // iter_mut or values_mut are exactly what later lookups return" (or the entries are not yielded)
        e.h.dual.push(("C01", "iter_probe", "C09"));
    }
    if e.cx.prop == "C01" {
        // C01 lists drain among its operations: the pairs a drain hands back are its return value
        e.h.dual.push(("C10", "drain", "C01"));
    }
    e.run_history::<F, N>(max_steps);
    if prop == "C19" && hist % 16 == 0 {
        unit_value_fmt_probe(cx, hist);
        zero_sized_value_fmt_probe::<()>(cx, hist, "()");
        zero_sized_value_fmt_probe::<Marker16>(cx, hist, "Marker16(align 16)");
        zero_sized_value_fmt_probe::<[u64; 0]>(cx, hist, "[u64; 0]");
    }
    if F::NAME == "zst" && hist % 4 == 0 && matches!(prop.as_str(), "C01" | "C02" | "C05" | "C09" | "C10" | "C15" | "C18") {
        zst_pair_probe(cx, hist);
    }
}
