//! Reference dictionary: an insertion-ordered Vec with linear search and `Vec::remove` — on
//! purpose a different algorithm from micromap's swap-remove slot array.  It remembers the
//! identity (ledger ids, tag) of the stored key and value objects, so stored-key identity and
//! ownership can be compared as well as contents.

#[derive(Clone, Debug, PartialEq, Eq)]
pub struct Ent {
    pub class: u32,
    pub tag: u32,
    pub kid: u64,
    pub vid: u64,
    pub payload: u32,
}

#[derive(Clone, Debug)]
pub struct Dict {
    pub cap: usize,
    pub ents: Vec<Ent>,
}

impl Dict {
    pub fn new(cap: usize) -> Self {
        Dict {
            cap,
            ents: Vec::new(),
        }
    }
    pub fn len(&self) -> usize {
        self.ents.len()
    }
    pub fn is_empty(&self) -> bool {
        self.ents.is_empty()
    }
    pub fn is_full(&self) -> bool {
        self.ents.len() >= self.cap
    }
    pub fn find(&self, class: u32) -> Option<usize> {
        self.ents.iter().position(|e| e.class == class)
    }
    pub fn get(&self, class: u32) -> Option<&Ent> {
        self.ents.iter().find(|e| e.class == class)
    }
    pub fn get_mut(&mut self, class: u32) -> Option<&mut Ent> {
        self.ents.iter_mut().find(|e| e.class == class)
    }
    pub fn remove(&mut self, class: u32) -> Option<Ent> {
        self.find(class).map(|i| self.ents.remove(i))
    }
    pub fn push(&mut self, e: Ent) {
        debug_assert!(self.find(e.class).is_none());
        self.ents.push(e);
    }
    pub fn clear(&mut self) {
        self.ents.clear();
    }
    pub fn classes(&self) -> Vec<u32> {
        self.ents.iter().map(|e| e.class).collect()
    }
}
