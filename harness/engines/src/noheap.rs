//! C06 engine: no operation allocates; every reference points inside the container value.
//!
//! The binary installs `support::alloc::Counting` as the global allocator.  Every public
//! operation is executed inside a *window*: the allocator-call counter (alloc, alloc_zeroed,
//! realloc, dealloc) is read immediately before and after the call, and nothing else happens
//! in between — arguments are prepared before, results are inspected after.  Element types do
//! not allocate (u32, a 128-byte array key, a 512-byte array value, zero-sized), closures and
//! the formatting sink (a fixed buffer) do not allocate, operations that are expected to panic
//! are never put in a window (the panic machinery may allocate).  Self-check: a window around
//! nothing must read 0 and a window around `Box::new` must read >= 1.
//!
//! Address-range monitor: every reference handed out must lie inside
//! `[addr_of(container), + size_of(container))`.

use crate::common::Ctx;
use micromap::{Entry, Map, Set};
use std::fmt::{self, Write as _};
use support::alloc;
use support::ledger;
use support::rng::{Fp, Rng};

pub trait NK: Copy + PartialEq + Eq + fmt::Debug + fmt::Display + 'static {
    fn mk(c: u32) -> Self;
    fn class(&self) -> u32;
    const NAME: &'static str;
}
pub trait NV: Copy + PartialEq + fmt::Debug + fmt::Display + Default + 'static {
    fn mk(p: u32) -> Self;
    fn p(&self) -> u32;
}
impl NK for u32 {
    fn mk(c: u32) -> Self {
        c
    }
    fn class(&self) -> u32 {
        *self
    }
    const NAME: &'static str = "u32";
}
impl NV for u32 {
    fn mk(p: u32) -> Self {
        p
    }
    fn p(&self) -> u32 {
        *self
    }
}
#[derive(Clone, Copy, PartialEq, Eq)]
pub struct BigK(pub [u64; 16]);
impl fmt::Debug for BigK {
    fn fmt(&self, f: &mut fmt::Formatter<'_>) -> fmt::Result {
        write!(f, "B{}", self.0[0])
    }
}
impl fmt::Display for BigK {
    fn fmt(&self, f: &mut fmt::Formatter<'_>) -> fmt::Result {
        write!(f, "b{}", self.0[0])
    }
}
impl NK for BigK {
    fn mk(c: u32) -> Self {
        BigK([u64::from(c); 16])
    }
    fn class(&self) -> u32 {
        self.0[0] as u32
    }
    const NAME: &'static str = "big128";
}
#[derive(Clone, Copy, PartialEq)]
pub struct BigV(pub [u64; 64]);
impl Default for BigV {
    fn default() -> Self {
        BigV([0; 64])
    }
}
impl fmt::Debug for BigV {
    fn fmt(&self, f: &mut fmt::Formatter<'_>) -> fmt::Result {
        write!(f, "W{}", self.0[0])
    }
}
impl fmt::Display for BigV {
    fn fmt(&self, f: &mut fmt::Formatter<'_>) -> fmt::Result {
        write!(f, "w{}", self.0[0])
    }
}
impl NV for BigV {
    fn mk(p: u32) -> Self {
        BigV([u64::from(p); 64])
    }
    fn p(&self) -> u32 {
        self.0[0] as u32
    }
}

/// fixed-buffer formatting sink: never allocates, never fails (drops what does not fit)
pub struct Sink {
    pub buf: [u8; 2048],
    pub len: usize,
}
impl fmt::Write for Sink {
    fn write_str(&mut self, s: &str) -> fmt::Result {
        let n = s.len().min(self.buf.len() - self.len);
        self.buf[self.len..self.len + n].copy_from_slice(&s.as_bytes()[..n]);
        self.len += n;
        Ok(())
    }
}

pub struct Nh<'a> {
    pub cx: &'a mut Ctx,
    pub windows: u64,
    pub refs_checked: u64,
    pub hist: u64,
    pub descr: String,
    pub last_ops: Vec<&'static str>,
}

pub const OPS: [&str; 34] = [
    "Map::new", "Map::default", "Map::from(array)", "Map::from_iter(array)", "insert", "insert_key_value", "checked_insert", "get",
    "get_mut", "get_key_value", "contains_key", "index", "index_mut", "remove", "remove_entry", "retain", "clear", "drain",
    "iter", "iter_mut", "keys", "values", "values_mut", "into_iter", "into_keys", "into_values", "entry.or_insert",
    "entry.or_insert_with", "entry.and_modify.or_default", "entry.occupied|vacant", "get_disjoint_mut", "clone", "eq", "fmt",
];
pub const SET_OPS: [&str; 22] = [
    "Set::new", "Set::from(array)", "Set::insert", "Set::replace", "Set::contains", "Set::get", "Set::remove", "Set::take", "Set::retain",
    "Set::clear", "Set::drain", "Set::extend", "Set::iter", "Set::into_iter", "Set::union", "Set::intersection", "Set::difference",
    "Set::symmetric_difference", "Set::predicates", "Set::sub", "Set::clone+eq", "Set::fmt",
];

macro_rules! win {
    ($s:expr, $name:expr, $body:expr) => {{
        let c0 = alloc::calls();
        let r = $body;
        let c1 = alloc::calls();
        $s.window($name, c1 - c0);
        r
    }};
}

impl<'a> Nh<'a> {
    fn window(&mut self, name: &'static str, delta: u64) {
        self.windows += 1;
        self.cx.rep.evaluations += 1;
        self.cx.rep.hit(name);
        if self.last_ops.len() >= 24 {
            self.last_ops.remove(0);
        }
        self.last_ops.push(name);
        if delta != 0 {
            ledger::set_ctx(self.hist, 0, name);
            ledger::violation("C06", format!("allocator-call@{}", name), format!("{} made {} allocator call(s) with non-allocating element types [{}]", name, delta, self.descr));
        }
    }
    fn inside<T, C>(&mut self, name: &'static str, r: &T, c: &C) {
        self.refs_checked += 1;
        let p = r as *const T as usize;
        let lo = c as *const C as usize;
        let hi = lo + std::mem::size_of::<C>();
        let ok = p >= lo && p + std::mem::size_of::<T>() <= hi;
        if !ok {
            ledger::set_ctx(self.hist, 0, name);
            ledger::violation("C06", format!("ref-outside@{}", name), format!("{} handed out a reference at {:#x}, outside the container's bytes [{:#x}, {:#x}) [{}]", name, p, lo, hi, self.descr));
        }
    }

    /// false if the counting allocator is not doing its job (then nothing can be concluded)
    pub fn self_check(&mut self) -> bool {
        let c0 = alloc::calls();
        let c1 = alloc::calls();
        let b = std::hint::black_box(Box::new(7u64));
        let c2 = alloc::calls();
        drop(b);
        let c3 = alloc::calls();
        let ok = c1 == c0 && c2 > c1 && c3 > c2;
        if !ok {
            self.cx.rep.notes.push("SELF-CHECK FAILED: the counting allocator does not see Box::new / drop".into());
        }
        self.cx.rep.num("allocator_self_checks", 1);
        ok
    }

    pub fn map_history<K: NK, V: NV, const N: usize>(&mut self, hist: u64, mut rng: Rng, steps: usize) {
        self.hist = hist;
        self.descr = format!("history {} Map<{},_,{}>", hist, K::NAME, N);
        self.last_ops.clear();
        let u = N as u32 + 2;
        // construction inside windows
        let mut m: Map<K, V, N> = win!(self, "Map::new", Map::new());
        if rng.chance(1, 4) {
            m = win!(self, "Map::default", Map::default());
        }
        if rng.chance(1, 4) {
            let arr: [(K, V); N] = core::array::from_fn(|i| (K::mk(1 + (i as u32 % u.max(1))), V::mk(i as u32)));
            m = win!(self, "Map::from(array)", Map::from(arr));
        } else if rng.chance(1, 4) && N > 0 {
            let arr: [(K, V); 3] = core::array::from_fn(|i| (K::mk(1 + (i as u32 % (N as u32).min(3))), V::mk(i as u32)));
            m = win!(self, "Map::from_iter(array)", arr.into_iter().collect());
        }
        // model outside windows
        let mut model: Vec<(u32, u32)> = m.iter().map(|(k, v)| (k.class(), v.p())).collect();
        let mut sink = Sink { buf: [0; 2048], len: 0 };
        let mut fp = Fp::new(0x0606 + N as u64);
        for step in 0..steps {
            let op = 4 + rng.usize_below(OPS.len() - 4);
            let c = 1 + rng.below(u64::from(u)) as u32;
            let c2 = 1 + rng.below(u64::from(u)) as u32;
            let p = 100 + step as u32;
            let k = K::mk(c);
            let val = V::mk(p);
            let present = model.iter().any(|e| e.0 == c);
            let full = model.len() >= N;
            fp.add(op as u64 * 1000 + u64::from(c) + (model.len() as u64) * 100_000);
            match op {
                4 | 5 | 6 => {
                    if !present && full && op != 6 {
                        continue; // would panic: never in a window
                    }
                    let r: Option<u32> = match op {
                        4 => win!(self, "insert", m.insert(k, val)).map(|x| x.p()),
                        5 => win!(self, "insert_key_value", m.insert_key_value(k, val)).map(|x| x.1.p()),
                        _ => match win!(self, "checked_insert", m.checked_insert(k, val)) {
                            None => continue,
                            Some(o) => o.map(|x| x.p()),
                        },
                    };
                    match model.iter_mut().find(|e| e.0 == c) {
                        Some(e) => {
                            if r != Some(e.1) {
                                self.note_model("insert result");
                            }
                            e.1 = p;
                        }
                        None => model.push((c, p)),
                    }
                }
                7 => {
                    let r = win!(self, "get", m.get(&k));
                    if let Some(x) = r {
                        let x: &V = x;
                        self.inside("get", x, &m);
                    }
                }
                8 => {
                    let r = win!(self, "get_mut", m.get_mut(&k).map(|x| x as *mut V));
                    if let Some(x) = r {
                        // SAFETY: pointer just derived from a live &mut into m; m is not touched in between
                        self.inside("get_mut", unsafe { &*x }, &m);
                    }
                }
                9 => {
                    let r = win!(self, "get_key_value", m.get_key_value(&k));
                    if let Some((kk, x)) = r {
                        let (kk, x): (&K, &V) = (kk, x);
                        self.inside("get_key_value", kk, &m);
                        self.inside("get_key_value", x, &m);
                    }
                }
                10 => {
                    let r = win!(self, "contains_key", m.contains_key(&k));
                    if r != present {
                        self.note_model("contains_key");
                    }
                }
                11 if present => {
                    let x: &V = win!(self, "index", &m[&k]);
                    self.inside("index", x, &m);
                }
                12 if present => {
                    let x = win!(self, "index_mut", &mut m[&k] as *mut V);
                    self.inside("index_mut", unsafe { &*x }, &m);
                }
                13 => {
                    let _ = win!(self, "remove", m.remove(&k));
                    model.retain(|e| e.0 != c);
                }
                14 => {
                    let _ = win!(self, "remove_entry", m.remove_entry(&k));
                    model.retain(|e| e.0 != c);
                }
                15 => {
                    let bits = rng.next();
                    win!(self, "retain", m.retain(|kk, _| (bits >> (kk.class() % 60)) & 1 == 1));
                    model.retain(|e| (bits >> (e.0 % 60)) & 1 == 1);
                }
                16 if rng.chance(1, 4) => {
                    win!(self, "clear", m.clear());
                    model.clear();
                }
                17 if rng.chance(1, 3) => {
                    let take = rng.usize_below(3);
                    win!(self, "drain", {
                        let mut d = m.drain();
                        for _ in 0..take {
                            let _ = d.next();
                        }
                        let _ = d.len();
                    });
                    model.clear();
                }
                18 => {
                    let mut addrs: [usize; 64] = [0; 64];
                    let n = win!(self, "iter", {
                        let mut n = 0;
                        for (kk, x) in m.iter() {
                            if n < 32 {
                                addrs[2 * n] = kk as *const K as usize;
                                addrs[2 * n + 1] = x as *const V as usize;
                            }
                            n += 1;
                        }
                        let _ = m.iter().len();
                        n
                    });
                    self.addr_list("iter", &addrs[..2 * n.min(32)], &m);
                }
                19 => {
                    win!(self, "iter_mut", {
                        for (_, x) in m.iter_mut() {
                            *x = val;
                        }
                    });
                    for e in &mut model {
                        e.1 = p;
                    }
                }
                20 => {
                    let mut addrs: [usize; 64] = [0; 64];
                    let n = win!(self, "keys", {
                        let mut n = 0;
                        for kk in m.keys() {
                            if n < 64 {
                                addrs[n] = kk as *const K as usize;
                            }
                            n += 1;
                        }
                        n
                    });
                    self.addr_list("keys", &addrs[..n.min(64)], &m);
                }
                21 => {
                    let mut addrs: [usize; 64] = [0; 64];
                    let n = win!(self, "values", {
                        let mut n = 0;
                        for x in m.values() {
                            if n < 64 {
                                addrs[n] = x as *const V as usize;
                            }
                            n += 1;
                        }
                        n
                    });
                    self.addr_list("values", &addrs[..n.min(64)], &m);
                }
                22 => {
                    win!(self, "values_mut", {
                        for x in m.values_mut() {
                            *x = val;
                        }
                    });
                    for e in &mut model {
                        e.1 = p;
                    }
                }
                23..=25 if rng.chance(1, 3) => {
                    let take = rng.usize_below(3);
                    let c = win!(self, "clone", m.clone());
                    match op {
                        23 => win!(self, "into_iter", {
                            let mut it = c.into_iter();
                            for _ in 0..take {
                                let _ = it.next();
                            }
                        }),
                        24 => win!(self, "into_keys", {
                            let mut it = c.into_keys();
                            for _ in 0..take {
                                let _ = it.next();
                            }
                        }),
                        _ => win!(self, "into_values", {
                            let mut it = c.into_values();
                            for _ in 0..take {
                                let _ = it.next();
                            }
                        }),
                    }
                }
                26 | 27 => {
                    if !present && full {
                        continue;
                    }
                    let x = if op == 26 { win!(self, "entry.or_insert", m.entry(k).or_insert(val) as *mut V) } else { win!(self, "entry.or_insert_with", m.entry(k).or_insert_with(|| val) as *mut V) };
                    self.inside(if op == 26 { "entry.or_insert" } else { "entry.or_insert_with" }, unsafe { &*x }, &m);
                    if !present {
                        model.push((c, p));
                    }
                }
                28 => {
                    if !present && full {
                        continue;
                    }
                    let x = win!(self, "entry.and_modify.or_default", m.entry(k).and_modify(|x| *x = val).or_default() as *mut V);
                    self.inside("entry.and_modify.or_default", unsafe { &*x }, &m);
                    match model.iter_mut().find(|e| e.0 == c) {
                        Some(e) => e.1 = p,
                        None => model.push((c, V::default().p())),
                    }
                }
                29 => {
                    let remove = rng.chance(1, 2);
                    if !present && full && !remove {
                        continue;
                    }
                    let mut occ_addrs: [usize; 3] = [0; 3];
                    win!(self, "entry.occupied|vacant", {
                        match m.entry(k) {
                            Entry::Occupied(mut o) => {
                                occ_addrs[0] = o.key() as *const K as usize;
                                occ_addrs[1] = o.get() as *const V as usize;
                                occ_addrs[2] = o.get_mut() as *mut V as usize;
                                *o.get_mut() = val;
                                if remove {
                                    let _ = o.remove_entry();
                                } else {
                                    let _ = o.insert(val);
                                }
                            }
                            Entry::Vacant(va) => {
                                let _ = va.key();
                                if remove {
                                    let _ = va.into_key();
                                } else {
                                    va.insert(val);
                                }
                            }
                        }
                    });
                    if occ_addrs[0] != 0 {
                        // OccupiedEntry::key / get / get_mut hand out references to the stored key and value
                        self.addr_list("OccupiedEntry::key|get|get_mut", &occ_addrs, &m);
                    }
                    if remove {
                        model.retain(|e| e.0 != c);
                    } else {
                        match model.iter_mut().find(|e| e.0 == c) {
                            Some(e) => e.1 = p,
                            None => model.push((c, p)),
                        }
                    }
                }
                30 if c != c2 => {
                    let (k1, k2) = (K::mk(c), K::mk(c2));
                    let r = win!(self, "get_disjoint_mut", {
                        let [a, b] = m.get_disjoint_mut([&k1, &k2]);
                        [a.map(|x| x as *mut V), b.map(|x| x as *mut V)]
                    });
                    for x in r.into_iter().flatten() {
                        self.inside("get_disjoint_mut", unsafe { &*x }, &m);
                    }
                }
                31 => {
                    let c = win!(self, "clone", m.clone());
                    let e = win!(self, "eq", c == m && m == c);
                    if !e {
                        self.note_model("clone != original");
                    }
                }
                32 => {
                    let other: Map<K, V, N> = Map::new();
                    let _ = win!(self, "eq", other == m);
                }
                33 => {
                    sink.len = 0;
                    win!(self, "fmt", {
                        let _ = write!(sink, "{:?}", m);
                        let _ = write!(sink, "{:#?}", m);
                        let _ = write!(sink, "{}", m);
                        let _ = write!(sink, "{:?}{:?}{:?}", m.iter(), m.keys(), m.values());
                    });
                    sink.len = 0;
                    win!(self, "fmt(flags)", {
                        let _ = write!(sink, "{:>40}", m);
                        let _ = write!(sink, "{:*^9}", m);
                        let _ = write!(sink, "{:<3}{:+}{:08}", m, m, m);
                        let _ = write!(sink, "{:12?}{:#x?}", m, m);
                    });
                }
                _ => {}
            }
            // cheap model agreement (outside any window): len
            if m.len() != model.len() {
                self.note_model("len");
                break;
            }
        }
        self.cx.rep.fps.add(fp.get());
        // dropping the map must not call the allocator either
        win!(self, "drop(map)", drop(m));
        self.flush();
    }

    fn addr_list<C>(&mut self, name: &'static str, addrs: &[usize], c: &C) {
        let lo = c as *const C as usize;
        let hi = lo + std::mem::size_of::<C>();
        for a in addrs {
            self.refs_checked += 1;
            if !(*a >= lo && *a <= hi) {
                ledger::set_ctx(self.hist, 0, name);
                ledger::violation("C06", format!("ref-outside@{}", name), format!("{} yielded a reference at {:#x}, outside the container's bytes [{:#x}, {:#x}) [{}]", name, a, lo, hi, self.descr));
            }
        }
    }

    fn note_model(&mut self, what: &str) {
        // functional disagreement is other properties' business; it is only noted here
        ledger::violation("C01", format!("noheap-model@{}", what), format!("no-heap engine: the map disagrees with its shadow model on {} [{}]", what, self.descr));
    }

    pub fn set_history<K: NK, const N: usize, const M: usize>(&mut self, hist: u64, mut rng: Rng, steps: usize) {
        self.hist = hist;
        self.descr = format!("history {} Set<{},{}> x Set<_,{}>", hist, K::NAME, N, M);
        self.last_ops.clear();
        let u = N as u32 + 2;
        let mut s: Set<K, N> = win!(self, "Set::new", Set::new());
        if rng.chance(1, 3) {
            let arr: [K; N] = core::array::from_fn(|i| K::mk(1 + (i as u32 % u)));
            s = win!(self, "Set::from(array)", Set::from(arr));
        }
        let mut t: Set<K, M> = Set::new();
        // operands beyond 64 elements are nearly full half of the time (a random length rarely gets there)
        let tl = if M > 64 && rng.chance(1, 2) { M - rng.usize_below(4) } else { rng.usize_below(M + 1) };
        for i in 0..tl {
            t.insert(K::mk(1 + (i as u32 * 2) % (M as u32 + 1)));
        }
        let mut model: Vec<u32> = s.iter().map(|k| k.class()).collect();
        let mut sink = Sink { buf: [0; 2048], len: 0 };
        let mut fp = Fp::new(0x5606 + N as u64);
        for _ in 0..steps {
            let op = 2 + rng.usize_below(SET_OPS.len() - 2);
            let c = 1 + rng.below(u64::from(u)) as u32;
            let k = K::mk(c);
            let present = model.contains(&c);
            let full = model.len() >= N;
            fp.add(op as u64 * 1000 + u64::from(c) + (model.len() as u64) * 100_000);
            match op {
                2 | 3 => {
                    if !present && full {
                        continue;
                    }
                    if op == 2 {
                        let _ = win!(self, "Set::insert", s.insert(k));
                    } else {
                        let _ = win!(self, "Set::replace", s.replace(k));
                    }
                    if !present {
                        model.push(c);
                    }
                }
                4 => {
                    let _ = win!(self, "Set::contains", s.contains(&k));
                }
                5 => {
                    if let Some(x) = win!(self, "Set::get", s.get(&k)) {
                        let x: &K = x;
                        self.inside("Set::get", x, &s);
                    }
                }
                6 => {
                    let _ = win!(self, "Set::remove", s.remove(&k));
                    model.retain(|e| *e != c);
                }
                7 => {
                    let _ = win!(self, "Set::take", s.take(&k));
                    model.retain(|e| *e != c);
                }
                8 => {
                    let bits = rng.next();
                    win!(self, "Set::retain", s.retain(|kk| (bits >> (kk.class() % 60)) & 1 == 1));
                    model.retain(|e| (bits >> (e % 60)) & 1 == 1);
                }
                9 if rng.chance(1, 4) => {
                    win!(self, "Set::clear", s.clear());
                    model.clear();
                }
                10 if rng.chance(1, 3) => {
                    win!(self, "Set::drain", {
                        let mut d = s.drain();
                        let _ = d.next();
                        let _ = d.len();
                    });
                    model.clear();
                }
                11 => {
                    // extend by value and by reference with items that all fit
                    let a = K::mk(c);
                    if present || !full {
                        win!(self, "Set::extend", s.extend([a]));
                        if !present {
                            model.push(c);
                        }
                        let arr = [a, a];
                        win!(self, "Set::extend", s.extend(arr.iter()));
                    }
                }
                12 => {
                    let mut addrs: [usize; 64] = [0; 64];
                    let n = win!(self, "Set::iter", {
                        let mut n = 0;
                        for kk in s.iter() {
                            if n < 64 {
                                addrs[n] = kk as *const K as usize;
                            }
                            n += 1;
                        }
                        let _ = s.iter().len();
                        n
                    });
                    self.addr_list("Set::iter", &addrs[..n.min(64)], &s);
                }
                13 if rng.chance(1, 3) => {
                    let c = win!(self, "Set::clone+eq", s.clone());
                    win!(self, "Set::into_iter", {
                        let mut it = c.into_iter();
                        let _ = it.next();
                        let _ = it.len();
                    });
                }
                14..=17 => {
                    let mut addrs: [usize; 96] = [0; 96];
                    let name = SET_OPS[op];
                    let n = win!(self, name, {
                        let mut n = 0;
                        macro_rules! walk {
                            ($it:expr) => {{
                                let mut it = $it;
                                let _ = it.size_hint();
                                let _ = it.clone().count();
                                while let Some(kk) = it.next() {
                                    if n < 96 {
                                        addrs[n] = kk as *const K as usize;
                                    }
                                    n += 1;
                                }
                            }};
                        }
                        match op {
                            14 => walk!(s.union(&t)),
                            15 => walk!(s.intersection(&t)),
                            16 => walk!(s.difference(&t)),
                            _ => walk!(s.symmetric_difference(&t)),
                        }
                        n
                    });
                    // union / symmetric difference may point into either operand
                    let (lo1, hi1) = (&s as *const _ as usize, &s as *const _ as usize + std::mem::size_of::<Set<K, N>>());
                    let (lo2, hi2) = (&t as *const _ as usize, &t as *const _ as usize + std::mem::size_of::<Set<K, M>>());
                    for a in &addrs[..n.min(96)] {
                        self.refs_checked += 1;
                        let in1 = *a >= lo1 && *a <= hi1;
                        let in2 = *a >= lo2 && *a <= hi2;
                        let ok = if op == 15 || op == 16 { in1 } else { in1 || in2 };
                        if !ok {
                            ledger::violation("C06", format!("ref-outside@{}", name), format!("{} yielded a reference at {:#x} outside the operand(s) [{}]", name, a, self.descr));
                        }
                    }
                }
                18 => {
                    win!(self, "Set::predicates", {
                        let _ = s.is_subset(&t);
                        let _ = s.is_superset(&t);
                        let _ = s.is_disjoint(&t);
                    });
                }
                19 => {
                    let d: Set<K, N> = win!(self, "Set::sub", &s - &t);
                    drop(d);
                }
                20 => {
                    let c = win!(self, "Set::clone+eq", s.clone());
                    let _ = win!(self, "Set::clone+eq", c == s);
                }
                21 => {
                    sink.len = 0;
                    win!(self, "Set::fmt", {
                        let _ = write!(sink, "{:?}{:#?}{}", s, s, s);
                        let _ = write!(sink, "{:?}{:?}{:?}{:?}", s.union(&t), s.intersection(&t), s.difference(&t), s.symmetric_difference(&t));
                    });
                    sink.len = 0;
                    win!(self, "Set::fmt(flags)", {
                        let _ = write!(sink, "{:>40}{:*^9}{:+}", s, s, s);
                        let _ = write!(sink, "{:12?}{:#x?}", s, s);
                    });
                }
                _ => {}
            }
            if s.len() != model.len() {
                self.note_model("set len");
                break;
            }
        }
        self.cx.rep.fps.add(fp.get());
        win!(self, "drop(set)", drop(s));
        self.flush();
    }

    /// zero-sized key and value
    /// Elements WITH drop glue that do not allocate themselves (a destructor that bumps a counter): whatever a
    /// container does differently for `needs_drop` types must not involve the allocator either.
    pub fn dropglue<const N: usize, const M: usize>(&mut self, hist: u64, mut rng: Rng) {
        use std::sync::atomic::{AtomicU64, Ordering};
        static DROPS: AtomicU64 = AtomicU64::new(0);
        #[derive(PartialEq, Eq, Debug)]
        struct DK(u32);
        impl Drop for DK {
            fn drop(&mut self) {
                DROPS.fetch_add(1, Ordering::Relaxed);
            }
        }
        impl Clone for DK {
            fn clone(&self) -> Self {
                DK(self.0)
            }
        }
        #[derive(PartialEq, Debug, Default)]
        struct DV(u32);
        impl Drop for DV {
            fn drop(&mut self) {
                DROPS.fetch_add(1, Ordering::Relaxed);
            }
        }
        impl Clone for DV {
            fn clone(&self) -> Self {
                DV(self.0)
            }
        }
        self.hist = hist;
        self.descr = format!("history {} Map<DK,DV,{}> / Set<DK,{}> (elements with drop glue, no heap)", hist, N, M);
        let mut m: Map<DK, DV, N> = win!(self, "Map::new", Map::new());
        let fill = 1 + rng.usize_below(N);
        for i in 0..fill {
            let _ = win!(self, "insert", m.insert(DK(i as u32), DV(7)));
        }
        let _ = win!(self, "insert", m.insert(DK(0), DV(8)));
        let _ = win!(self, "insert_key_value", m.insert_key_value(DK(0), DV(9)));
        let _ = win!(self, "checked_insert", m.checked_insert(DK(0), DV(10)));
        let _ = win!(self, "get", m.get(&DK(0)).map(|x| x.0));
        let _ = win!(self, "get_mut", m.get_mut(&DK(0)).map(|x| x.0 += 1));
        win!(self, "entry", {
            *m.entry(DK(0)).or_insert(DV(1)) = DV(2);
            m.entry(DK(0)).and_modify(|x| x.0 += 1).or_default();
        });
        let c = win!(self, "clone", m.clone());
        let _ = win!(self, "eq", c == m);
        win!(self, "into_iter", {
            let mut it = c.into_iter();
            let _ = it.next();
        });
        let c2 = m.clone();
        win!(self, "into_values", {
            let mut it = c2.into_values();
            let _ = it.next();
        });
        if rng.chance(1, 2) {
            let _ = win!(self, "remove", m.remove(&DK(0)));
        }
        win!(self, "retain", m.retain(|k, _| k.0 % 2 == 0));
        let mut c3 = m.clone();
        win!(self, "drain", {
            let mut d = c3.drain();
            let _ = d.next();
        });
        let mut c4 = m.clone();
        win!(self, "clear", c4.clear());
        win!(self, "clear", m.clear());
        win!(self, "drop(map)", drop(m));
        let mut s: Set<DK, M> = win!(self, "Set::new", Set::new());
        let mut t: Set<DK, M> = Set::new();
        let sf = 1 + rng.usize_below(M);
        for i in 0..sf {
            let _ = win!(self, "Set::insert", s.insert(DK(i as u32)));
            if i % 2 == 0 {
                t.insert(DK(i as u32));
            }
        }
        let _ = win!(self, "Set::replace", s.replace(DK(0)));
        let _ = win!(self, "Set::contains", s.contains(&DK(0)));
        let _ = win!(self, "Set::union", s.union(&t).count());
        let _ = win!(self, "Set::intersection", s.intersection(&t).count());
        let _ = win!(self, "Set::difference", s.difference(&t).count());
        let _ = win!(self, "Set::symmetric_difference", s.symmetric_difference(&t).count());
        let _ = win!(self, "Set::predicates", (s.is_subset(&t), s.is_superset(&t), s.is_disjoint(&t)));
        let d: Set<DK, M> = win!(self, "Set::sub", &s - &t);
        win!(self, "Set::clone+eq", {
            let c = s.clone();
            let _ = c == s;
        });
        let _ = win!(self, "Set::take", s.take(&DK(0)));
        win!(self, "Set::retain", s.retain(|k| k.0 % 2 == 1));
        win!(self, "Set::drain", {
            let mut dr = t.drain();
            let _ = dr.next();
        });
        win!(self, "Set::clear", s.clear());
        win!(self, "drop(set)", drop((s, t, d)));
        self.cx.rep.hit("drop-glue-elements");
        self.flush();
    }

    pub fn zst<const N: usize>(&mut self) {
        use support::elems::{z_set_eq, Z};
        self.descr = format!("Map<Z,(),{}>", N);
        z_set_eq(false);
        let mut m: Map<Z, (), N> = win!(self, "Map::new", Map::new());
        for _ in 0..N {
            let z = Z::new();
            win!(self, "insert", m.insert(z, ()));
        }
        let z = Z::new();
        let _ = win!(self, "get", m.get(&z));
        let _ = win!(self, "contains_key", m.contains_key(&z));
        let n = win!(self, "iter", m.iter().count());
        if n != N {
            self.note_model("zst iteration count");
        }
        // every reference handed out lies inside the container's bytes also when it is a reference to a
        // zero-sized key / value (a "dangling but aligned" address would be a valid reference, but it does not
        // point into the container)
        for (k, x) in m.iter() {
            self.inside("iter(zero-sized pair)", k, &m);
            self.inside("iter(zero-sized pair)", x, &m);
        }
        for (k, x) in &m {
            self.inside("&map(zero-sized pair)", k, &m);
            self.inside("&map(zero-sized pair)", x, &m);
        }
        for k in m.keys() {
            self.inside("keys(zero-sized pair)", k, &m);
        }
        for x in m.values() {
            self.inside("values(zero-sized pair)", x, &m);
        }
        {
            let mut it = m.iter();
            if let Some((k, _)) = it.nth(N / 2) {
                self.inside("iter.nth(zero-sized pair)", k, &m);
            }
        }
        let lo = &m as *const Map<Z, (), N> as usize;
        let hi = lo + std::mem::size_of::<Map<Z, (), N>>();
        for (k, x) in m.iter_mut() {
            let (a, b) = (k as *const Z as usize, x as *mut () as usize);
            self.refs_checked += 2;
            if a < lo || a > hi || b < lo || b > hi {
                ledger::set_ctx(self.hist, 0, "iter_mut(zero-sized pair)");
                ledger::violation("C06", "ref-outside@iter_mut(zero-sized pair)".to_string(), format!("iter_mut handed out references at {:#x} / {:#x}, outside the container's bytes [{:#x}, {:#x}) [{}]", a, b, lo, hi, self.descr));
            }
        }
        z_set_eq(true);
        if N > 0 {
            if let Some((k, x)) = m.get_key_value(&z) {
                self.inside("get_key_value(zero-sized pair)", k, &m);
                self.inside("get_key_value(zero-sized pair)", x, &m);
            } else {
                self.note_model("zst lookup");
            }
        }
        z_set_eq(false);
        {
            // sets of zero-sized elements and their algebra
            let mut a: Set<Z, N> = Set::new();
            let mut b: Set<Z, N> = Set::new();
            for i in 0..N {
                a.insert(Z::new());
                if i % 2 == 0 {
                    b.insert(Z::new());
                }
            }
            let (pa, pb): (*const Set<Z, N>, *const Set<Z, N>) = (&a, &b);
            let within = |p: usize| {
                let (la, lb) = (pa as usize, pb as usize);
                let sz = std::mem::size_of::<Set<Z, N>>();
                (p >= la && p <= la + sz) || (p >= lb && p <= lb + sz)
            };
            let mut bad: Vec<(&'static str, usize)> = Vec::new();
            for e in a.iter() {
                if !within(e as *const Z as usize) { bad.push(("Set::iter", e as *const Z as usize)); }
            }
            for e in a.union(&b) {
                if !within(e as *const Z as usize) { bad.push(("Set::union", e as *const Z as usize)); }
            }
            for e in a.difference(&b) {
                if !within(e as *const Z as usize) { bad.push(("Set::difference", e as *const Z as usize)); }
            }
            for e in a.symmetric_difference(&b) {
                if !within(e as *const Z as usize) { bad.push(("Set::symmetric_difference", e as *const Z as usize)); }
            }
            self.refs_checked += 4 * N as u64;
            for (name, addr) in bad {
                ledger::set_ctx(self.hist, 0, name);
                ledger::violation("C06", format!("ref-outside@{}(zero-sized)", name), format!("{} yielded a reference at {:#x}, outside both operand sets [{}]", name, addr, self.descr));
            }
        }
        win!(self, "retain", m.retain(|_, _| true));
        let c = win!(self, "clone", m.clone());
        win!(self, "into_iter", drop(c.into_iter()));
        win!(self, "clear", m.clear());
        z_set_eq(true);
        win!(self, "drop(map)", drop(m));
        self.cx.rep.hit("zst");
    }

    pub fn finish(&mut self) {
        let (w, r) = (self.windows, self.refs_checked);
        self.cx.rep.num("allocation_windows", w);
        self.cx.rep.num("references_range_checked", r);
        self.flush();
    }

    fn flush(&mut self) {
        if ledger::viol_total() > 0 {
            let ops = self.last_ops.clone();
            let d = self.descr.clone();
            self.cx.rep.absorb_violations("C06", &|| {
                let mut v = vec![d.clone(), "last windows:".to_string()];
                v.extend(ops.iter().map(|s| s.to_string()));
                v
            });
        }
    }
}
