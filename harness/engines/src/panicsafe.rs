//! C04 engine: fault enumeration at user callbacks.
//!
//! A *case* is (container state, operation, argument choice).  For every case the operation is
//! first run without a fault while the callback ticks are counted (n); then, for EVERY
//! k in 1..=n, the identical state is rebuilt, a single-shot panic is armed at tick k, the
//! operation is run under `catch_unwind`, and every container involved is validated
//! (well-formedness), exercised (insert / lookup / remove / retain / clear / insert) and
//! dropped, with the ownership ledger listening throughout.  Leaks are tolerated and counted.
//!
//! States: all ordered arrangements of all subsets of a 4-class universe that fit into N
//! (exhaustive sub-space), plus random larger states.

use crate::common::Ctx;
use crate::fam::{Fam, KeyF, ValF};
use micromap::{Entry, Map, Set};
use support::elems::Class;
use support::fault::{self, Caught, Cb};
use support::ledger;
use support::rng::{Fp, Rng};

/// absent class used as "a key that is not stored"
const ABSENT: u32 = 9;
const FRESH: u32 = 77;

pub const MAP_OPS: [&str; 57] = [
    "insert", "insert_key_value", "checked_insert", "remove(q)", "remove(k)", "remove_entry(q)", "get(q)", "get(k)",
    "get_mut(q)", "contains_key(k)", "get_key_value(q)", "index(q)", "index_mut(k)", "retain(some)", "retain(none)",
    "clear", "drain.take0.drop", "drain.take1.drop", "clone", "eq(equal)", "eq(different)", "entry.or_insert",
    "entry.or_insert_with", "entry.or_insert_with_key", "entry.or_default", "entry.and_modify.or_insert",
    "entry.insert", "entry.remove|into_key", "entry.remove_entry|key", "from_iter", "into_iter.take1.drop",
    "into_keys.take0.drop", "into_values.take1.drop", "drop(map)", "get_disjoint_mut", "fmt.debug", "fmt.display",
    "fmt.iter-debug", "fmt.drain-debug", "retain(mutate)", "entry.get|get_mut|into_mut", "clone-from-clone.eq",
    "drain.take-all", "from(array)", "insert_unchecked", "into_iter.for_each", "into_iter.last", "into_keys.fold",
    "into_values.for_each", "drain.for_each", "iter_mut.for_each", "values_mut.fold", "into_iter.nth1.drop", "drain.nth1.drop",
    "into_iter.skip1.collect", "clone_from(same length)", "clone_from(shorter target)",
];
/// which map ops take a key argument (the others run once per state)
fn map_op_keyed(op: usize) -> bool {
    matches!(op, 0..=12 | 21..=28 | 34 | 40 | 44)
}

pub const SET_OPS: [&str; 34] = [
    "set.insert", "set.replace", "set.remove(q)", "set.take(k)", "set.get(q)", "set.contains(k)", "set.retain(some)",
    "set.clear", "set.drain.take1.drop", "set.clone", "set.eq", "set.extend", "set.from_iter", "set.union",
    "set.intersection", "set.difference", "set.symmetric_difference", "set.is_subset", "set.is_superset",
    "set.is_disjoint", "set.sub", "set.into_iter.take1.drop", "drop(set)", "set.fmt.debug", "set.fmt.display",
    "set.union.debug", "set.difference.fold", "set.retain(none)", "set.extend(overflow)", "set.intersection.debug",
    "set.into_iter.for_each", "set.drain.for_each", "set.iter.fold", "set.clone_from",
];
fn set_op_keyed(op: usize) -> bool {
    matches!(op, 0..=5)
}
fn set_op_binary(op: usize) -> bool {
    matches!(op, 10 | 13..=20 | 25 | 26 | 29)
}

macro_rules! lookup {
    ($F:ty, $class:expr, $byq:expr, |$q:ident| $body:expr) => {
        if $byq {
            #[allow(unused_macros)]
            macro_rules! QT { () => { <<$F as Fam>::K as KeyF>::Q } }
            <<$F as Fam>::K as KeyF>::with_q($class, |$q| $body)
        } else {
            #[allow(unused_macros)]
            macro_rules! QT { () => { <$F as Fam>::K } }
            let probe = <<$F as Fam>::K as KeyF>::mk($class, 0xFFFF);
            let $q = &probe;
            $body
        }
    };
}

/// all ordered arrangements of all subsets of {1..=u} with at most `maxlen` elements
pub fn layouts(u: u32, maxlen: usize) -> Vec<Vec<u32>> {
    fn rec(u: u32, maxlen: usize, cur: &mut Vec<u32>, out: &mut Vec<Vec<u32>>) {
        out.push(cur.clone());
        if cur.len() == maxlen {
            return;
        }
        for c in 1..=u {
            if !cur.contains(&c) {
                cur.push(c);
                rec(u, maxlen, cur, out);
                cur.pop();
            }
        }
    }
    let mut out = Vec::new();
    rec(u, maxlen, &mut Vec::new(), &mut out);
    out
}

pub struct Stats {
    pub cases: u64,
    pub faulted_runs: u64,
    pub fired: u64,
    pub not_fired: u64,
    pub leaked: u64,
    pub survivors: u64,
    pub cb: [u64; 12],
    pub max_ticks: u64,
}

pub struct Drv<'a> {
    pub cx: &'a mut Ctx,
    pub st: Stats,
    pub case_no: u64,
    pub descr: String,
    pub failed: bool,
    /// sub-sampling of the case space (Miri): only cases with (case_no / nshards) % stride == phase
    pub stride: u64,
    pub phase: u64,
    /// restrict the space to one operation (C18: insert_unchecked)
    pub only_op: Option<String>,
}

/// Property that ledger-raised ownership violations (double destruction, destruction or use of a slot
/// that holds no live element) are attributed to: C02 states them for every use of the containers, so a
/// C02 run of this engine claims them; well-formedness findings (`viol`) stay with C04 / C18.
fn fault_mem_prop(prop: &str) -> &'static str {
    match prop {
        "C18" => "C18",
        "C02" => "C02",
        _ => "C04",
    }
}

fn viol(d: &mut Drv, what: &str, msg: String) {
    let (_, _, op) = ledger::ctx();
    let prop = if d.cx.prop == "C18" { "C18" } else { "C04" };
    ledger::violation(prop, format!("{}@{}", what, op), msg);
    d.failed = true;
}

/// Build a map holding the given classes in the given slot order (no faults armed).
fn build_map<F: Fam, const N: usize>(layout: &[u32]) -> Map<F::K, F::V, N> {
    let mut m = Map::new();
    for (i, c) in layout.iter().enumerate() {
        m.insert(F::K::mk(*c, i as u32), F::V::mk(100 + *c));
    }
    m
}
fn build_set<F: Fam, const N: usize>(layout: &[u32]) -> Set<F::K, N> {
    let mut s = Set::new();
    for (i, c) in layout.iter().enumerate() {
        s.insert(F::K::mk(*c, i as u32));
    }
    s
}

/// Well-formedness + usability of a surviving map; consumes it (final drop under the ledger).
fn validate_map<F: Fam, const N: usize>(d: &mut Drv, mut m: Map<F::K, F::V, N>, whr: &str) {
    d.st.survivors += 1;
    let r = fault::catch(|| {
        let mut problems: Vec<String> = Vec::new();
        let len = m.len();
        if len > N {
            problems.push(format!("len() = {} > N = {}", len, N));
        }
        if m.is_empty() != (len == 0) {
            problems.push("is_empty() disagrees with len()".into());
        }
        let mut seen: Vec<u32> = Vec::new();
        let mut cnt = 0usize;
        for (k, v) in m.iter() {
            cnt += 1;
            if cnt > N + 2 {
                problems.push("iteration runs away".into());
                break;
            }
            if !(k.chk("survivor key") & v.chk("survivor value")) {
                problems.push("iteration yields a dead or uninitialised element".into());
                continue;
            }
            if seen.contains(&k.class()) {
                problems.push(format!("two keys of class {}", k.class()));
            }
            seen.push(k.class());
        }
        if cnt != len {
            problems.push(format!("len() = {} but iteration yields {}", len, cnt));
        }
        for c in &seen {
            let found: Option<bool> = lookup!(F, *c, true, |q| m.get::<QT!()>(q).map(|v| v.chk("survivor get()")));
            if found != Some(true) {
                problems.push(format!("yielded key of class {} cannot be looked up", c));
            }
        }
        // batch lookups on the survivor: two present keys (and one absent) against what get_mut gives
        if seen.len() >= 2 {
            let (a, b) = (seen[0], seen[seen.len() - 1]);
            // a class the survivor does not hold (random big states use classes beyond the small universe)
            let absent = (0..).map(|i| 1_000_000 + i).find(|c| !seen.contains(c)).unwrap();
            let want: Vec<Option<u32>> = [a, b, absent].iter().map(|c| lookup!(F, *c, true, |q| m.get_mut::<QT!()>(q).map(|v| v.payload()))).collect();
            let (ka, kb, kc) = (F::K::mk(a, 0xFFFE), F::K::mk(b, 0xFFFE), F::K::mk(absent, 0xFFFE));
            let got: Vec<Option<u32>> = m.get_disjoint_mut::<F::K, 3>([&ka, &kb, &kc]).iter().map(|x| x.as_ref().map(|v| v.payload())).collect();
            if got != want {
                problems.push(format!("get_disjoint_mut of classes [{}, {}, absent] gives values {:?}; get_mut gives {:?}", a, b, got, want));
            }
        }
        // exercise
        let len = m.len();
        if len < N && !seen.contains(&FRESH) {
            if m.insert(F::K::mk(FRESH, 0), F::V::mk(7)).is_some() || m.len() != len + 1 {
                problems.push("insert of a fresh key into a non-full survivor misbehaves".into());
            }
        }
        if let Some(c) = seen.first() {
            let r: bool = lookup!(F, *c, false, |q| m.remove::<QT!()>(q).is_some());
            if !r {
                problems.push(format!("remove of yielded class {} finds nothing", c));
            }
        }
        m.retain(|k, v| k.chk("survivor retain key") & v.chk("survivor retain value"));
        m.clear();
        if m.len() != 0 || m.iter().next().is_some() {
            problems.push("not empty after clear()".into());
        }
        if N > 0 {
            m.insert(F::K::mk(FRESH + 1, 0), F::V::mk(8));
            if m.len() != 1 {
                problems.push("insert after clear() misbehaves".into());
            }
        }
        drop(m);
        problems
    });
    match r {
        Caught::Ok(p) => {
            for x in p {
                viol(d, "survivor-malformed", format!("{} [{}]: {}", whr, d.descr, x));
            }
        }
        Caught::Panic(msg) => viol(d, "survivor-unusable", format!("{} [{}]: using the surviving map panicked: {}", whr, d.descr, msg)),
        Caught::Injected(..) => viol(d, "harness", "fault fired during validation".into()),
    }
}

fn validate_set<F: Fam, const N: usize>(d: &mut Drv, mut s: Set<F::K, N>, whr: &str) {
    d.st.survivors += 1;
    let r = fault::catch(|| {
        let mut problems: Vec<String> = Vec::new();
        let len = s.len();
        if len > N {
            problems.push(format!("len() = {} > N = {}", len, N));
        }
        let mut seen: Vec<u32> = Vec::new();
        let mut cnt = 0usize;
        for k in s.iter() {
            cnt += 1;
            if cnt > N + 2 {
                problems.push("iteration runs away".into());
                break;
            }
            if !k.chk("survivor element") {
                problems.push("iteration yields a dead or uninitialised element".into());
                continue;
            }
            if seen.contains(&k.class()) {
                problems.push(format!("two elements of class {}", k.class()));
            }
            seen.push(k.class());
        }
        if cnt != len {
            problems.push(format!("len() = {} but iteration yields {}", len, cnt));
        }
        for c in &seen {
            let found: bool = lookup!(F, *c, true, |q| s.contains::<QT!()>(q));
            if !found {
                problems.push(format!("yielded element of class {} is not contained", c));
            }
        }
        if len < N && !seen.contains(&FRESH) && !s.insert(F::K::mk(FRESH, 0)) {
            problems.push("insert of a fresh element into a non-full survivor returns false".into());
        }
        if let Some(c) = seen.first() {
            let r: bool = lookup!(F, *c, false, |q| s.remove::<QT!()>(q));
            if !r {
                problems.push(format!("remove of yielded class {} finds nothing", c));
            }
        }
        s.retain(|k| k.chk("survivor retain element"));
        s.clear();
        if s.len() != 0 || s.iter().next().is_some() {
            problems.push("not empty after clear()".into());
        }
        if N > 0 {
            s.insert(F::K::mk(FRESH + 1, 0));
        }
        drop(s);
        problems
    });
    match r {
        Caught::Ok(p) => {
            for x in p {
                viol(d, "survivor-malformed", format!("{} [{}]: {}", whr, d.descr, x));
            }
        }
        Caught::Panic(msg) => viol(d, "survivor-unusable", format!("{} [{}]: using the surviving set panicked: {}", whr, d.descr, msg)),
        Caught::Injected(..) => viol(d, "harness", "fault fired during validation".into()),
    }
}

/// source iterator that ticks on every `next`
struct Src<T> {
    items: std::vec::IntoIter<T>,
}
impl<T> Iterator for Src<T> {
    type Item = T;
    fn next(&mut self) -> Option<T> {
        fault::tick(Cb::SrcNext);
        self.items.next()
    }
}

/// Containers a map operation works on; `out` receives a container the operation produced.
pub struct MapEnv<F: Fam, const N: usize> {
    pub m: Option<Map<F::K, F::V, N>>,
    pub b: Option<Map<F::K, F::V, N>>,
    pub out: Option<Map<F::K, F::V, N>>,
}

/// Run map operation `op` with key class `kc`.  Everything it builds is created here, so an
/// unwinding panic destroys the arguments exactly as it would in user code.
fn run_map_op<F: Fam, const N: usize>(op: usize, kc: u32, layout: &[u32], env: &mut MapEnv<F, N>) {
    let mk = |tag: u32| F::K::mk(kc, 1000 + tag);
    let mv = |p: u32| F::V::mk(p);
    match op {
        0 => {
            let m = env.m.as_mut().unwrap();
            let r = m.insert(mk(0), mv(500));
            drop(r);
        }
        44 => {
            // only inside the documented precondition (decided from the layout, without calling user code)
            if layout.len() < N || layout.contains(&kc) {
                let m = env.m.as_mut().unwrap();
                // SAFETY: the map is not full, or the key is present
                let r = unsafe { m.insert_unchecked(mk(0), mv(500)) };
                drop(r);
            }
        }
        1 => {
            let m = env.m.as_mut().unwrap();
            let r = m.insert_key_value(mk(0), mv(500));
            drop(r);
        }
        2 => {
            let m = env.m.as_mut().unwrap();
            let r = m.checked_insert(mk(0), mv(500));
            drop(r);
        }
        3 => {
            let m = env.m.as_mut().unwrap();
            let r = lookup!(F, kc, true, |q| m.remove::<QT!()>(q));
            drop(r);
        }
        4 => {
            let m = env.m.as_mut().unwrap();
            let r = lookup!(F, kc, false, |q| m.remove::<QT!()>(q));
            drop(r);
        }
        5 => {
            let m = env.m.as_mut().unwrap();
            let r = lookup!(F, kc, true, |q| m.remove_entry::<QT!()>(q));
            drop(r);
        }
        6 => {
            let m = env.m.as_ref().unwrap();
            lookup!(F, kc, true, |q| {
                if let Some(v) = m.get::<QT!()>(q) {
                    v.chk("get");
                }
            });
        }
        7 => {
            let m = env.m.as_ref().unwrap();
            lookup!(F, kc, false, |q| {
                if let Some(v) = m.get::<QT!()>(q) {
                    v.chk("get");
                }
            });
        }
        8 => {
            let m = env.m.as_mut().unwrap();
            lookup!(F, kc, true, |q| {
                if let Some(v) = m.get_mut::<QT!()>(q) {
                    v.set_payload(1);
                }
            });
        }
        9 => {
            let m = env.m.as_ref().unwrap();
            let _ = lookup!(F, kc, false, |q| m.contains_key::<QT!()>(q));
        }
        10 => {
            let m = env.m.as_ref().unwrap();
            lookup!(F, kc, true, |q| {
                if let Some((k, v)) = m.get_key_value::<QT!()>(q) {
                    k.chk("gkv");
                    v.chk("gkv");
                }
            });
        }
        11 => {
            let m = env.m.as_ref().unwrap();
            lookup!(F, kc, true, |q| {
                let v = <Map<F::K, F::V, N> as std::ops::Index<&QT!()>>::index(m, q);
                v.chk("index");
            });
        }
        12 => {
            let m = env.m.as_mut().unwrap();
            lookup!(F, kc, false, |q| {
                let v = <Map<F::K, F::V, N> as std::ops::IndexMut<&QT!()>>::index_mut(m, q);
                v.set_payload(2);
            });
        }
        13 | 14 | 39 => {
            let m = env.m.as_mut().unwrap();
            m.retain(|k, v| {
                fault::tick(Cb::Closure);
                if op == 39 {
                    v.set_payload(3);
                }
                match op {
                    13 => k.class() % 2 == 0,
                    14 => false,
                    _ => k.class() != 2,
                }
            });
        }
        15 => env.m.as_mut().unwrap().clear(),
        16 => {
            let m = env.m.as_mut().unwrap();
            let d = m.drain();
            drop(d);
        }
        17 => {
            let m = env.m.as_mut().unwrap();
            let mut d = m.drain();
            let x = d.next();
            drop(x);
            drop(d);
        }
        42 => {
            let m = env.m.as_mut().unwrap();
            for x in m.drain() {
                drop(x);
            }
        }
        18 => {
            let c = env.m.as_ref().unwrap().clone();
            env.out = Some(c);
        }
        19 | 20 => {
            let _ = env.m.as_ref().unwrap() == env.b.as_ref().unwrap();
            let _ = env.b.as_ref().unwrap() == env.m.as_ref().unwrap();
        }
        55 | 56 => {
            // overwrite a live target: whatever clone_from does with the target's old pairs, a Clone that unwinds
            // half-way must leave both maps well-formed
            let (m, b) = (env.m.as_ref().unwrap(), env.b.as_mut().unwrap());
            b.clone_from(m);
        }
        41 => {
            let c = env.m.as_ref().unwrap().clone();
            let c2 = c.clone();
            let _ = c2 == c;
            env.out = Some(c2);
            drop(c);
        }
        21 => {
            let m = env.m.as_mut().unwrap();
            let r = m.entry(mk(0)).or_insert(mv(500));
            r.set_payload(4);
        }
        22 => {
            let m = env.m.as_mut().unwrap();
            let r = m.entry(mk(0)).or_insert_with(|| {
                fault::tick(Cb::Closure);
                F::V::mk(500)
            });
            r.set_payload(4);
        }
        23 => {
            let m = env.m.as_mut().unwrap();
            let r = m.entry(mk(0)).or_insert_with_key(|k| {
                fault::tick(Cb::Closure);
                k.chk("oiwk");
                F::V::mk(500)
            });
            r.set_payload(4);
        }
        24 => {
            let m = env.m.as_mut().unwrap();
            let r = m.entry(mk(0)).or_default();
            r.set_payload(4);
        }
        25 => {
            let m = env.m.as_mut().unwrap();
            let r = m
                .entry(mk(0))
                .and_modify(|v| {
                    fault::tick(Cb::Closure);
                    v.set_payload(5);
                })
                .or_insert(mv(500));
            r.set_payload(6);
        }
        26 => {
            let m = env.m.as_mut().unwrap();
            match m.entry(mk(0)) {
                Entry::Occupied(mut o) => {
                    let old = o.insert(mv(500));
                    drop(old);
                }
                Entry::Vacant(v) => {
                    v.insert(mv(500));
                }
            }
        }
        27 => {
            let m = env.m.as_mut().unwrap();
            match m.entry(mk(0)) {
                Entry::Occupied(o) => drop(o.remove()),
                Entry::Vacant(v) => drop(v.into_key()),
            }
        }
        28 => {
            let m = env.m.as_mut().unwrap();
            match m.entry(mk(0)) {
                Entry::Occupied(o) => drop(o.remove_entry()),
                Entry::Vacant(v) => {
                    v.key().chk("vacant key");
                }
            }
        }
        40 => {
            let m = env.m.as_mut().unwrap();
            if let Entry::Occupied(mut o) = m.entry(mk(0)) {
                o.key().chk("occ key");
                o.get().chk("occ get");
                o.get_mut().set_payload(7);
                o.into_mut().set_payload(8);
            }
        }
        29 => {
            // collect: the layout's entries, then one repeat of the first and a fresh one if room
            let mut items: Vec<(F::K, F::V)> = layout.iter().enumerate().map(|(i, c)| (F::K::mk(*c, 2000 + i as u32), F::V::mk(600 + *c))).collect();
            if let Some(c) = layout.first() {
                items.push((F::K::mk(*c, 2999), F::V::mk(699)));
            }
            let src = Src { items: items.into_iter() };
            let c: Map<F::K, F::V, N> = src.collect();
            env.out = Some(c);
        }
        43 => {
            // From<[_; N]> with a repeat (needs exactly N items)
            let mut i = 0u32;
            let arr: [(F::K, F::V); N] = core::array::from_fn(|_| {
                i += 1;
                let c = if i == 2 { 1 } else { i };
                (F::K::mk(c, 3000 + i), F::V::mk(700 + i))
            });
            let c: Map<F::K, F::V, N> = Map::from(arr);
            env.out = Some(c);
        }
        30 => {
            let m = env.m.take().unwrap();
            let mut it = m.into_iter();
            let x = it.next();
            drop(x);
            drop(it);
        }
        31 => {
            let m = env.m.take().unwrap();
            let it = m.into_keys();
            drop(it);
        }
        32 => {
            let m = env.m.take().unwrap();
            let mut it = m.into_values();
            let x = it.next();
            drop(x);
            drop(it);
        }
        33 => {
            let m = env.m.take().unwrap();
            drop(m);
        }
        34 => {
            let m = env.m.as_mut().unwrap();
            let other = layout.last().copied().unwrap_or(ABSENT);
            if other != kc {
                F::K::with_q(kc, |q1| {
                    F::K::with_q(other, |q2| {
                        let [a, b] = m.get_disjoint_mut::<<F::K as KeyF>::Q, 2>([q1, q2]);
                        if let Some(a) = a {
                            a.set_payload(9);
                        }
                        if let Some(b) = b {
                            b.set_payload(10);
                        }
                    })
                });
            }
        }
        45 => {
            let m = env.m.take().unwrap();
            m.into_iter().for_each(|p| {
                fault::tick(Cb::Closure);
                drop(p);
            });
        }
        46 => {
            let m = env.m.take().unwrap();
            drop(m.into_iter().last());
        }
        47 => {
            let m = env.m.take().unwrap();
            let n = m.into_keys().fold(0u32, |a, k| {
                fault::tick(Cb::Closure);
                a.wrapping_add(k.class())
            });
            let _ = std::hint::black_box(n);
        }
        48 => {
            let m = env.m.take().unwrap();
            m.into_values().for_each(|x| {
                fault::tick(Cb::Closure);
                drop(x);
            });
        }
        49 => {
            let m = env.m.as_mut().unwrap();
            m.drain().for_each(|p| {
                fault::tick(Cb::Closure);
                drop(p);
            });
        }
        50 => {
            let m = env.m.as_mut().unwrap();
            m.iter_mut().for_each(|(k, x)| {
                fault::tick(Cb::Closure);
                k.chk("iter_mut key");
                x.set_payload(11);
            });
        }
        51 => {
            let m = env.m.as_mut().unwrap();
            let n = m.values_mut().fold(0u32, |a, x| {
                fault::tick(Cb::Closure);
                x.set_payload(12);
                a + 1
            });
            let _ = std::hint::black_box(n);
        }
        52 => {
            let m = env.m.take().unwrap();
            let mut it = m.into_iter();
            drop(it.nth(1));
            drop(it);
        }
        53 => {
            let m = env.m.as_mut().unwrap();
            let mut d = m.drain();
            drop(d.nth(1));
            drop(d);
        }
        54 => {
            let m = env.m.take().unwrap();
            let v: Vec<(F::K, F::V)> = m.into_iter().skip(1).collect();
            drop(v);
        }
        35 => {
            let _ = format!("{:?}", env.m.as_ref().unwrap());
        }
        36 => {
            let _ = format!("{}", env.m.as_ref().unwrap());
        }
        37 => {
            let m = env.m.as_mut().unwrap();
            let _ = format!("{:?}{:?}{:?}", m.iter(), m.keys(), m.values());
            let _ = format!("{:?}", m.iter_mut());
            let _ = format!("{:?}", m.values_mut());
        }
        38 => {
            let m = env.m.as_mut().unwrap();
            let mut d = m.drain();
            let x = d.next();
            let _ = format!("{:?}", d);
            drop(x);
            drop(d);
        }
        _ => unreachable!(),
    }
}

pub struct SetEnv<F: Fam, const N: usize, const M: usize> {
    pub s: Option<Set<F::K, N>>,
    pub t: Option<Set<F::K, M>>,
    pub out: Option<Set<F::K, N>>,
}

fn run_set_op<F: Fam, const N: usize, const M: usize>(op: usize, kc: u32, layout: &[u32], env: &mut SetEnv<F, N, M>) {
    let mk = |tag: u32| F::K::mk(kc, 1000 + tag);
    match op {
        0 => {
            env.s.as_mut().unwrap().insert(mk(0));
        }
        1 => {
            let r = env.s.as_mut().unwrap().replace(mk(0));
            drop(r);
        }
        2 => {
            let s = env.s.as_mut().unwrap();
            let _ = lookup!(F, kc, true, |q| s.remove::<QT!()>(q));
        }
        3 => {
            let s = env.s.as_mut().unwrap();
            let r = lookup!(F, kc, false, |q| s.take::<QT!()>(q));
            drop(r);
        }
        4 => {
            let s = env.s.as_ref().unwrap();
            lookup!(F, kc, true, |q| {
                if let Some(k) = s.get::<QT!()>(q) {
                    k.chk("Set::get");
                }
            });
        }
        5 => {
            let s = env.s.as_ref().unwrap();
            let _ = lookup!(F, kc, false, |q| s.contains::<QT!()>(q));
        }
        6 | 27 => {
            env.s.as_mut().unwrap().retain(|k| {
                fault::tick(Cb::Closure);
                op == 6 && k.class() % 2 == 1
            });
        }
        7 => env.s.as_mut().unwrap().clear(),
        8 => {
            let s = env.s.as_mut().unwrap();
            let mut d = s.drain();
            let x = d.next();
            drop(x);
            drop(d);
        }
        9 => {
            let c = env.s.as_ref().unwrap().clone();
            env.out = Some(c);
        }
        10 => {
            let _ = env.s.as_ref().unwrap() == env.t.as_ref().unwrap();
            let _ = env.t.as_ref().unwrap() == env.s.as_ref().unwrap();
        }
        11 | 28 => {
            // extend: one present, one fresh (28: more fresh ones than fit)
            let mut items: Vec<F::K> = Vec::new();
            if let Some(c) = layout.first() {
                items.push(F::K::mk(*c, 2000));
            }
            items.push(F::K::mk(FRESH, 2001));
            if op == 28 {
                for i in 0..(N as u32 + 1) {
                    items.push(F::K::mk(200 + i, 2100 + i));
                }
            }
            env.s.as_mut().unwrap().extend(Src { items: items.into_iter() });
        }
        12 => {
            let mut items: Vec<F::K> = layout.iter().enumerate().map(|(i, c)| F::K::mk(*c, 2000 + i as u32)).collect();
            if let Some(c) = layout.first() {
                items.push(F::K::mk(*c, 2999));
            }
            let c: Set<F::K, N> = Src { items: items.into_iter() }.collect();
            env.out = Some(c);
        }
        13 => {
            let (s, t) = (env.s.as_ref().unwrap(), env.t.as_ref().unwrap());
            for k in s.union(t) {
                k.chk("union item");
            }
        }
        14 => {
            let (s, t) = (env.s.as_ref().unwrap(), env.t.as_ref().unwrap());
            for k in s.intersection(t) {
                k.chk("intersection item");
            }
        }
        15 => {
            let (s, t) = (env.s.as_ref().unwrap(), env.t.as_ref().unwrap());
            for k in s.difference(t) {
                k.chk("difference item");
            }
        }
        16 => {
            let (s, t) = (env.s.as_ref().unwrap(), env.t.as_ref().unwrap());
            for k in s.symmetric_difference(t) {
                k.chk("symmetric_difference item");
            }
        }
        17 => {
            let _ = env.s.as_ref().unwrap().is_subset(env.t.as_ref().unwrap());
        }
        18 => {
            let _ = env.s.as_ref().unwrap().is_superset(env.t.as_ref().unwrap());
        }
        19 => {
            let _ = env.s.as_ref().unwrap().is_disjoint(env.t.as_ref().unwrap());
        }
        20 => {
            let c: Set<F::K, N> = env.s.as_ref().unwrap() - env.t.as_ref().unwrap();
            env.out = Some(c);
        }
        21 => {
            let s = env.s.take().unwrap();
            let mut it = s.into_iter();
            let x = it.next();
            drop(x);
            drop(it);
        }
        22 => {
            let s = env.s.take().unwrap();
            drop(s);
        }
        23 => {
            let _ = format!("{:?}", env.s.as_ref().unwrap());
        }
        24 => {
            let _ = format!("{}", env.s.as_ref().unwrap());
        }
        25 => {
            let (s, t) = (env.s.as_ref().unwrap(), env.t.as_ref().unwrap());
            let _ = format!("{:?}", s.union(t));
        }
        26 => {
            let (s, t) = (env.s.as_ref().unwrap(), env.t.as_ref().unwrap());
            let n = s.difference(t).fold(0u32, |a, k| a + k.class());
            let _ = std::hint::black_box(n);
        }
        29 => {
            let (s, t) = (env.s.as_ref().unwrap(), env.t.as_ref().unwrap());
            let _ = format!("{:?}{:?}{:?}", s.intersection(t), s.symmetric_difference(t), s.difference(t));
        }
        30 => {
            let s = env.s.take().unwrap();
            s.into_iter().for_each(|k| {
                fault::tick(Cb::Closure);
                drop(k);
            });
        }
        31 => {
            let s = env.s.as_mut().unwrap();
            s.drain().for_each(|k| {
                fault::tick(Cb::Closure);
                drop(k);
            });
        }
        32 => {
            let s = env.s.as_ref().unwrap();
            let n = s.iter().fold(0u32, |a, k| {
                fault::tick(Cb::Closure);
                a.wrapping_add(k.class())
            });
            let _ = std::hint::black_box(n);
        }
        33 => {
            let (s, t) = (env.s.as_ref().unwrap(), env.out.as_mut().unwrap());
            t.clone_from(s);
        }
        _ => unreachable!(),
    }
}

fn key_choices(layout: &[u32]) -> Vec<u32> {
    let mut v = Vec::new();
    if let Some(c) = layout.first() {
        v.push(*c);
    }
    if layout.len() >= 3 {
        v.push(layout[layout.len() / 2]);
    }
    if layout.len() >= 2 {
        v.push(layout[layout.len() - 1]);
    }
    v.push(ABSENT);
    v
}

impl<'a> Drv<'a> {
    fn account(&mut self, fired: Option<(Cb, u64)>, armed: bool) {
        if armed {
            self.st.faulted_runs += 1;
            match fired {
                Some((cb, _)) => {
                    self.st.fired += 1;
                    self.st.cb[cb as usize] += 1;
                }
                None => self.st.not_fired += 1,
            }
        }
    }

    /// One map case: the recording run, then one faulted run per tick.
    pub fn map_case<F: Fam, const N: usize>(&mut self, layout: &[u32], op: usize, kc: u32, big: bool) {
        let name = MAP_OPS[op];
        self.descr = format!("Map<_,_,{}> {} state={:?} op={} key-class={}", N, F::NAME, layout, name, kc);
        let mut fp = Fp::new(0xC04 + N as u64);
        for c in layout {
            fp.add(u64::from(*c));
        }
        fp.add(1000 + op as u64);
        fp.add(u64::from(kc));
        self.st.cases += 1;
        let mut k = 0u64; // 0 = recording run
        let mut n = 0u64;
        loop {
            ledger::reset();
            ledger::set_ctx(self.case_no, k as u32, name);
            let mut env: MapEnv<F, N> = MapEnv { m: Some(build_map::<F, N>(layout)), b: None, out: None };
            if op == 19 || op == 55 {
                // the same keys in the opposite slot order
                env.b = Some(build_map::<F, N>(&layout.iter().rev().copied().collect::<Vec<_>>()));
            } else if op == 56 {
                env.b = Some(build_map::<F, N>(&layout.iter().rev().take(layout.len() / 2).copied().collect::<Vec<_>>()));
            } else if op == 20 {
                let mut l2: Vec<u32> = layout.to_vec();
                if let Some(x) = l2.last_mut() {
                    *x = ABSENT;
                }
                env.b = Some(build_map::<F, N>(&l2));
            }
            fault::begin(k == 0, if k == 0 { None } else { Some(k) });
            let r = fault::catch(|| run_map_op::<F, N>(op, kc, layout, &mut env));
            let (ticks, fired, trace) = fault::end();
            self.cx.rep.evaluations += 1;
            if k == 0 {
                n = ticks;
                self.st.max_ticks = self.st.max_ticks.max(n);
                let _ = trace;
                if !big {
                    self.cx.rep.hit(&format!("{}:{}", name, if matches!(r, Caught::Ok(())) { "ok" } else { "panics-unfaulted" }));
                }
            } else {
                self.account(fired, true);
                if fired.is_some() {
                    let mut f2 = fp;
                    f2.add(k);
                    self.cx.rep.fps.add(f2.get());
                    if let Some((cb, _)) = fired {
                        if !big {
                            self.cx.rep.hit(&format!("fault:{}:{}", name, cb.name()));
                        }
                    }
                }
            }
            // survivors
            let MapEnv { m, b, out } = env;
            for (what, c) in [("primary map", m), ("second operand", b), ("produced map", out)] {
                if let Some(c) = c {
                    validate_map::<F, N>(self, c, what);
                }
            }
            let leaked = ledger::alive_count() as u64;
            self.st.leaked += leaked;
            if k == 0 && leaked != 0 && F::TRACKED && matches!(r, Caught::Ok(())) {
                viol(self, "leak-without-fault", format!("{}: {} objects still alive after an unfaulted run and the drop of every container", self.descr, leaked));
            }
            if ledger::viol_total() > 0 || self.failed {
                let descr = self.descr.clone();
                let kk = k;
                let mem_prop = fault_mem_prop(&self.cx.prop);
                self.cx.rep.absorb_violations(mem_prop, &|| vec![descr.clone(), format!("fault armed at callback tick {} of {} (0 = none)", kk, n)]);
                self.failed = false;
            }
            k += 1;
            if k > n {
                break;
            }
        }
    }

    pub fn set_case<F: Fam, const N: usize, const M: usize>(&mut self, layout: &[u32], other: &[u32], op: usize, kc: u32, big: bool) {
        let name = SET_OPS[op];
        self.descr = format!("Set<_,{}> {} state={:?} other(M={})={:?} op={} key-class={}", N, F::NAME, layout, M, other, name, kc);
        let mut fp = Fp::new(0x5C04 + N as u64 * 64 + M as u64);
        for c in layout {
            fp.add(u64::from(*c));
        }
        fp.add(0xFFFF);
        for c in other {
            fp.add(u64::from(*c));
        }
        fp.add(1000 + op as u64);
        fp.add(u64::from(kc));
        self.st.cases += 1;
        let mut k = 0u64;
        let mut n = 0u64;
        loop {
            ledger::reset();
            ledger::set_ctx(self.case_no, k as u32, name);
            let mut env: SetEnv<F, N, M> = SetEnv { s: Some(build_set::<F, N>(layout)), t: None, out: None };
            if set_op_binary(op) {
                env.t = Some(build_set::<F, M>(other));
            }
            if op == 33 {
                // target of clone_from: the same elements in the opposite slot order
                let l2: Vec<u32> = layout.iter().rev().copied().collect();
                env.out = Some(build_set::<F, N>(&l2));
            }
            fault::begin(k == 0, if k == 0 { None } else { Some(k) });
            let r = fault::catch(|| run_set_op::<F, N, M>(op, kc, layout, &mut env));
            let (ticks, fired, _) = fault::end();
            self.cx.rep.evaluations += 1;
            if k == 0 {
                n = ticks;
                self.st.max_ticks = self.st.max_ticks.max(n);
                if !big {
                    self.cx.rep.hit(&format!("{}:{}", name, if matches!(r, Caught::Ok(())) { "ok" } else { "panics-unfaulted" }));
                }
            } else {
                self.account(fired, true);
                if let Some((cb, _)) = fired {
                    let mut f2 = fp;
                    f2.add(k);
                    self.cx.rep.fps.add(f2.get());
                    if !big {
                        self.cx.rep.hit(&format!("fault:{}:{}", name, cb.name()));
                    }
                }
            }
            let SetEnv { s, t, out } = env;
            if let Some(c) = s {
                validate_set::<F, N>(self, c, "primary set");
            }
            if let Some(c) = t {
                validate_set::<F, M>(self, c, "second operand");
            }
            if let Some(c) = out {
                validate_set::<F, N>(self, c, "produced set");
            }
            let leaked = ledger::alive_count() as u64;
            self.st.leaked += leaked;
            if k == 0 && leaked != 0 && F::TRACKED && matches!(r, Caught::Ok(())) {
                viol(self, "leak-without-fault", format!("{}: {} objects still alive after an unfaulted run", self.descr, leaked));
            }
            if ledger::viol_total() > 0 || self.failed {
                let descr = self.descr.clone();
                let kk = k;
                let mem_prop = fault_mem_prop(&self.cx.prop);
                self.cx.rep.absorb_violations(mem_prop, &|| vec![descr.clone(), format!("fault armed at callback tick {} of {} (0 = none)", kk, n)]);
                self.failed = false;
            }
            k += 1;
            if k > n {
                break;
            }
        }
    }

    /// All map cases of one capacity over the exhaustive layout sub-space; cases are numbered
    /// and sharded round-robin.
    pub fn map_space<F: Fam, const N: usize>(&mut self, universe: u32) {
        let (si, sn) = self.cx.shard;
        for layout in layouts(universe, N) {
            for op in 0..MAP_OPS.len() {
                if op == 43 && (N == 0 || !layout.is_empty()) {
                    continue;
                }
                if let Some(o) = &self.only_op {
                    if MAP_OPS[op] != o {
                        continue;
                    }
                }
                let keys = if map_op_keyed(op) { key_choices(&layout) } else { vec![ABSENT] };
                for kc in keys {
                    self.case_no += 1;
                    if let Some(h) = self.cx.only_hist {
                        if h != self.case_no {
                            continue;
                        }
                    } else if self.case_no % sn != si || (self.case_no / sn) % self.stride != self.phase {
                        continue;
                    }
                    if self.cx.rep.viol_total > 200 {
                        return;
                    }
                    self.map_case::<F, N>(&layout, op, kc, false);
                    if self.cx.rep.samples.len() < 3 && self.case_no % 97 == si {
                        let s = format!("case {}: {} -> faulted at every one of its callback ticks", self.case_no, self.descr);
                        self.cx.rep.sample(s);
                    }
                }
            }
        }
    }

    pub fn set_space<F: Fam, const N: usize, const M: usize>(&mut self, universe: u32, others: &[&[u32]]) {
        let (si, sn) = self.cx.shard;
        if self.only_op.is_some() {
            return;
        }
        for layout in layouts(universe, N) {
            for op in 0..SET_OPS.len() {
                let keys = if set_op_keyed(op) { key_choices(&layout) } else { vec![ABSENT] };
                let os: Vec<&[u32]> = if set_op_binary(op) { others.iter().copied().filter(|o| o.len() <= M).collect() } else { vec![&[]] };
                for kc in keys {
                    for o in &os {
                        self.case_no += 1;
                        if let Some(h) = self.cx.only_hist {
                            if h != self.case_no {
                                continue;
                            }
                        } else if self.case_no % sn != si || (self.case_no / sn) % self.stride != self.phase {
                            continue;
                        }
                        if self.cx.rep.viol_total > 200 {
                            return;
                        }
                        self.set_case::<F, N, M>(&layout, o, op, kc, false);
                        if self.cx.rep.samples.len() < 5 && self.case_no % 101 == si {
                            let s = format!("case {}: {} -> faulted at every one of its callback ticks", self.case_no, self.descr);
                            self.cx.rep.sample(s);
                        }
                    }
                }
            }
        }
    }

    /// Random larger states (not exhaustive): budgeted.
    pub fn random_big<F: Fam, const N: usize>(&mut self, budget: u64) {
        let start = self.cx.rep.evaluations;
        let mut h = 0u64;
        while self.cx.rep.evaluations - start < budget {
            h += 1;
            let mut rng: Rng = self.cx.hist_rng(1_000_000 + h * self.cx.shard.1 + self.cx.shard.0);
            let len = rng.usize_below(N + 1);
            let mut classes: Vec<u32> = (1..=(N as u32 + 2)).collect();
            rng.shuffle(&mut classes);
            let layout: Vec<u32> = classes[..len].to_vec();
            self.case_no += 1;
            if rng.chance(2, 3) || self.only_op.is_some() {
                let mut op = rng.usize_below(MAP_OPS.len());
                if let Some(o) = &self.only_op {
                    op = MAP_OPS.iter().position(|x| x == o).unwrap_or(0);
                }
                if op == 43 {
                    continue;
                }
                let keys = key_choices(&layout);
                let kc = keys[rng.usize_below(keys.len())];
                self.map_case::<F, N>(&layout, op, kc, true);
                self.cx.rep.hit("random-big:map");
            } else {
                let op = rng.usize_below(SET_OPS.len());
                let keys = key_choices(&layout);
                let kc = keys[rng.usize_below(keys.len())];
                let olen = rng.usize_below(N + 1);
                rng.shuffle(&mut classes);
                let other: Vec<u32> = classes[..olen].to_vec();
                self.set_case::<F, N, N>(&layout, &other, op, kc, true);
                self.cx.rep.hit("random-big:set");
            }
        }
    }
}

pub fn finish_stats(d: &mut Drv) {
    let st = &d.st;
    d.cx.rep.num("cases", st.cases);
    d.cx.rep.num("faulted_runs", st.faulted_runs);
    d.cx.rep.num("faults_fired", st.fired);
    d.cx.rep.num("faults_armed_but_not_fired", st.not_fired);
    d.cx.rep.num("objects_leaked_after_fault(tolerated)", st.leaked);
    d.cx.rep.num("survivors_validated", st.survivors);
    d.cx.rep.num_max("max_callback_ticks_in_one_operation", st.max_ticks);
    for (i, n) in st.cb.iter().enumerate() {
        if *n > 0 {
            d.cx.rep.num(&format!("fault_in:{}", fault::CB_NAMES[i]), *n);
        }
    }
}

pub fn new_drv(cx: &mut Ctx) -> Drv<'_> {
    Drv {
        cx,
        st: Stats { cases: 0, faulted_runs: 0, fired: 0, not_fired: 0, leaked: 0, survivors: 0, cb: [0; 12], max_ticks: 0 },
        case_no: 0,
        descr: String::new(),
        failed: false,
        stride: 1,
        phase: 0,
        only_op: None,
    }
}

#[allow(dead_code)]
fn _unused(_: &Class) {}
