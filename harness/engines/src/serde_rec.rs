//! Recording `Serializer` and replaying `Deserializer` for C20 (feature `serde`).
//!
//! The recorder logs the event stream a container emits (`serialize_map(Some(n))`, every key
//! and value, `end`), so the announced count and the emitted count can be read off the log.
//! The replayer feeds a recorded stream back into any `Deserialize` type.

use serde::de::{self, DeserializeSeed, IntoDeserializer, MapAccess, SeqAccess, Visitor};
use serde::ser::{self, Serialize, SerializeMap, SerializeSeq};
use std::fmt;

#[derive(Clone, Debug, PartialEq, Eq, PartialOrd, Ord)]
pub enum Val {
    U(u64),
    I(i64),
    B(bool),
    S(String),
    Unit,
}

#[derive(Clone, Debug, PartialEq)]
pub enum Ev {
    MapStart(Option<usize>),
    SeqStart(Option<usize>),
    Key(Val),
    Value(Val),
    Elem(Val),
    End,
}

#[derive(Debug)]
pub struct SErr(pub String);
impl fmt::Display for SErr {
    fn fmt(&self, f: &mut fmt::Formatter<'_>) -> fmt::Result {
        f.write_str(&self.0)
    }
}
impl std::error::Error for SErr {}
impl ser::Error for SErr {
    fn custom<T: fmt::Display>(msg: T) -> Self {
        SErr(msg.to_string())
    }
}
impl de::Error for SErr {
    fn custom<T: fmt::Display>(msg: T) -> Self {
        SErr(msg.to_string())
    }
}

// ---------------------------------------------------------------------------------------------
// scalar serializer: turns one element into a `Val`

pub struct Scalar;
macro_rules! scalar_u {
    ($($f:ident: $t:ty),*) => { $( fn $f(self, v: $t) -> Result<Val, SErr> { Ok(Val::U(v as u64)) } )* };
}
macro_rules! scalar_i {
    ($($f:ident: $t:ty),*) => { $( fn $f(self, v: $t) -> Result<Val, SErr> { Ok(Val::I(v as i64)) } )* };
}
impl ser::Serializer for Scalar {
    type Ok = Val;
    type Error = SErr;
    type SerializeSeq = ser::Impossible<Val, SErr>;
    type SerializeTuple = ser::Impossible<Val, SErr>;
    type SerializeTupleStruct = ser::Impossible<Val, SErr>;
    type SerializeTupleVariant = ser::Impossible<Val, SErr>;
    type SerializeMap = ser::Impossible<Val, SErr>;
    type SerializeStruct = ser::Impossible<Val, SErr>;
    type SerializeStructVariant = ser::Impossible<Val, SErr>;
    scalar_u!(serialize_u8: u8, serialize_u16: u16, serialize_u32: u32, serialize_u64: u64);
    scalar_i!(serialize_i8: i8, serialize_i16: i16, serialize_i32: i32, serialize_i64: i64);
    fn serialize_bool(self, v: bool) -> Result<Val, SErr> {
        Ok(Val::B(v))
    }
    fn serialize_str(self, v: &str) -> Result<Val, SErr> {
        Ok(Val::S(v.to_string()))
    }
    fn serialize_unit(self) -> Result<Val, SErr> {
        Ok(Val::Unit)
    }
    fn serialize_f32(self, _: f32) -> Result<Val, SErr> {
        Err(SErr("f32 unsupported".into()))
    }
    fn serialize_f64(self, _: f64) -> Result<Val, SErr> {
        Err(SErr("f64 unsupported".into()))
    }
    fn serialize_char(self, v: char) -> Result<Val, SErr> {
        Ok(Val::S(v.to_string()))
    }
    fn serialize_bytes(self, _: &[u8]) -> Result<Val, SErr> {
        Err(SErr("bytes unsupported".into()))
    }
    fn serialize_none(self) -> Result<Val, SErr> {
        Err(SErr("option unsupported".into()))
    }
    fn serialize_some<T: ?Sized + Serialize>(self, _: &T) -> Result<Val, SErr> {
        Err(SErr("option unsupported".into()))
    }
    fn serialize_unit_struct(self, _: &'static str) -> Result<Val, SErr> {
        Ok(Val::Unit)
    }
    fn serialize_unit_variant(self, _: &'static str, _: u32, v: &'static str) -> Result<Val, SErr> {
        Ok(Val::S(v.to_string()))
    }
    fn serialize_newtype_struct<T: ?Sized + Serialize>(self, _: &'static str, v: &T) -> Result<Val, SErr> {
        v.serialize(Scalar)
    }
    fn serialize_newtype_variant<T: ?Sized + Serialize>(self, _: &'static str, _: u32, _: &'static str, _: &T) -> Result<Val, SErr> {
        Err(SErr("variant unsupported".into()))
    }
    fn serialize_seq(self, _: Option<usize>) -> Result<Self::SerializeSeq, SErr> {
        Err(SErr("nested seq unsupported".into()))
    }
    fn serialize_tuple(self, _: usize) -> Result<Self::SerializeTuple, SErr> {
        Err(SErr("tuple unsupported".into()))
    }
    fn serialize_tuple_struct(self, _: &'static str, _: usize) -> Result<Self::SerializeTupleStruct, SErr> {
        Err(SErr("tuple struct unsupported".into()))
    }
    fn serialize_tuple_variant(self, _: &'static str, _: u32, _: &'static str, _: usize) -> Result<Self::SerializeTupleVariant, SErr> {
        Err(SErr("tuple variant unsupported".into()))
    }
    fn serialize_map(self, _: Option<usize>) -> Result<Self::SerializeMap, SErr> {
        Err(SErr("nested map unsupported".into()))
    }
    fn serialize_struct(self, _: &'static str, _: usize) -> Result<Self::SerializeStruct, SErr> {
        Err(SErr("struct unsupported".into()))
    }
    fn serialize_struct_variant(self, _: &'static str, _: u32, _: &'static str, _: usize) -> Result<Self::SerializeStructVariant, SErr> {
        Err(SErr("struct variant unsupported".into()))
    }
}

// ---------------------------------------------------------------------------------------------
// recorder: top-level serializer for a map or a sequence

pub struct Recorder<'a> {
    pub log: &'a mut Vec<Ev>,
}
pub struct RecMap<'a> {
    log: &'a mut Vec<Ev>,
}
pub struct RecSeq<'a> {
    log: &'a mut Vec<Ev>,
}
impl<'a> SerializeMap for RecMap<'a> {
    type Ok = ();
    type Error = SErr;
    fn serialize_key<T: ?Sized + Serialize>(&mut self, key: &T) -> Result<(), SErr> {
        let v = key.serialize(Scalar)?;
        self.log.push(Ev::Key(v));
        Ok(())
    }
    fn serialize_value<T: ?Sized + Serialize>(&mut self, value: &T) -> Result<(), SErr> {
        let v = value.serialize(Scalar)?;
        self.log.push(Ev::Value(v));
        Ok(())
    }
    fn end(self) -> Result<(), SErr> {
        self.log.push(Ev::End);
        Ok(())
    }
}
impl<'a> SerializeSeq for RecSeq<'a> {
    type Ok = ();
    type Error = SErr;
    fn serialize_element<T: ?Sized + Serialize>(&mut self, value: &T) -> Result<(), SErr> {
        let v = value.serialize(Scalar)?;
        self.log.push(Ev::Elem(v));
        Ok(())
    }
    fn end(self) -> Result<(), SErr> {
        self.log.push(Ev::End);
        Ok(())
    }
}
macro_rules! rec_unsupported {
    ($($f:ident: $t:ty),*) => { $( fn $f(self, _: $t) -> Result<(), SErr> { Err(SErr("the recorder expects a map or a sequence at top level".into())) } )* };
}
impl<'a> ser::Serializer for Recorder<'a> {
    type Ok = ();
    type Error = SErr;
    type SerializeSeq = RecSeq<'a>;
    type SerializeTuple = ser::Impossible<(), SErr>;
    type SerializeTupleStruct = ser::Impossible<(), SErr>;
    type SerializeTupleVariant = ser::Impossible<(), SErr>;
    type SerializeMap = RecMap<'a>;
    type SerializeStruct = ser::Impossible<(), SErr>;
    type SerializeStructVariant = ser::Impossible<(), SErr>;
    rec_unsupported!(serialize_bool: bool, serialize_i8: i8, serialize_i16: i16, serialize_i32: i32, serialize_i64: i64, serialize_u8: u8,
        serialize_u16: u16, serialize_u32: u32, serialize_u64: u64, serialize_f32: f32, serialize_f64: f64, serialize_char: char,
        serialize_str: &str, serialize_bytes: &[u8]);
    fn serialize_none(self) -> Result<(), SErr> {
        Err(SErr("unsupported".into()))
    }
    fn serialize_some<T: ?Sized + Serialize>(self, _: &T) -> Result<(), SErr> {
        Err(SErr("unsupported".into()))
    }
    fn serialize_unit(self) -> Result<(), SErr> {
        Err(SErr("unsupported".into()))
    }
    fn serialize_unit_struct(self, _: &'static str) -> Result<(), SErr> {
        Err(SErr("unsupported".into()))
    }
    fn serialize_unit_variant(self, _: &'static str, _: u32, _: &'static str) -> Result<(), SErr> {
        Err(SErr("unsupported".into()))
    }
    fn serialize_newtype_struct<T: ?Sized + Serialize>(self, _: &'static str, v: &T) -> Result<(), SErr> {
        v.serialize(self)
    }
    fn serialize_newtype_variant<T: ?Sized + Serialize>(self, _: &'static str, _: u32, _: &'static str, _: &T) -> Result<(), SErr> {
        Err(SErr("unsupported".into()))
    }
    fn serialize_seq(self, len: Option<usize>) -> Result<RecSeq<'a>, SErr> {
        self.log.push(Ev::SeqStart(len));
        Ok(RecSeq { log: self.log })
    }
    fn serialize_tuple(self, _: usize) -> Result<Self::SerializeTuple, SErr> {
        Err(SErr("unsupported".into()))
    }
    fn serialize_tuple_struct(self, _: &'static str, _: usize) -> Result<Self::SerializeTupleStruct, SErr> {
        Err(SErr("unsupported".into()))
    }
    fn serialize_tuple_variant(self, _: &'static str, _: u32, _: &'static str, _: usize) -> Result<Self::SerializeTupleVariant, SErr> {
        Err(SErr("unsupported".into()))
    }
    fn serialize_map(self, len: Option<usize>) -> Result<RecMap<'a>, SErr> {
        self.log.push(Ev::MapStart(len));
        Ok(RecMap { log: self.log })
    }
    fn serialize_struct(self, _: &'static str, _: usize) -> Result<Self::SerializeStruct, SErr> {
        Err(SErr("unsupported".into()))
    }
    fn serialize_struct_variant(self, _: &'static str, _: u32, _: &'static str, _: usize) -> Result<Self::SerializeStructVariant, SErr> {
        Err(SErr("unsupported".into()))
    }
}

// ---------------------------------------------------------------------------------------------
// replayer

pub struct ValDe(pub Val);
impl<'de> de::Deserializer<'de> for ValDe {
    type Error = SErr;
    fn deserialize_any<V: Visitor<'de>>(self, visitor: V) -> Result<V::Value, SErr> {
        match self.0 {
            Val::U(x) => visitor.visit_u64(x),
            Val::I(x) => visitor.visit_i64(x),
            Val::B(x) => visitor.visit_bool(x),
            Val::S(x) => visitor.visit_string(x),
            Val::Unit => visitor.visit_unit(),
        }
    }
    serde::forward_to_deserialize_any! {
        bool i8 i16 i32 i64 i128 u8 u16 u32 u64 u128 f32 f64 char str string bytes byte_buf option unit unit_struct
        newtype_struct seq tuple tuple_struct map struct enum identifier ignored_any
    }
}
impl<'de> IntoDeserializer<'de, SErr> for Val {
    type Deserializer = ValDe;
    fn into_deserializer(self) -> ValDe {
        ValDe(self)
    }
}

pub struct Replayer {
    pub log: Vec<Ev>,
}
struct RepMap {
    entries: std::vec::IntoIter<(Val, Val)>,
    pending: Option<Val>,
    hint: Option<usize>,
}
impl<'de> MapAccess<'de> for RepMap {
    type Error = SErr;
    fn next_key_seed<K: DeserializeSeed<'de>>(&mut self, seed: K) -> Result<Option<K::Value>, SErr> {
        match self.entries.next() {
            Some((k, v)) => {
                self.pending = Some(v);
                seed.deserialize(ValDe(k)).map(Some)
            }
            None => Ok(None),
        }
    }
    fn next_value_seed<V: DeserializeSeed<'de>>(&mut self, seed: V) -> Result<V::Value, SErr> {
        let v = self.pending.take().ok_or_else(|| SErr("value without key".into()))?;
        seed.deserialize(ValDe(v))
    }
    fn size_hint(&self) -> Option<usize> {
        self.hint
    }
}
struct RepSeq {
    items: std::vec::IntoIter<Val>,
    hint: Option<usize>,
}
impl<'de> SeqAccess<'de> for RepSeq {
    type Error = SErr;
    fn next_element_seed<T: DeserializeSeed<'de>>(&mut self, seed: T) -> Result<Option<T::Value>, SErr> {
        match self.items.next() {
            Some(v) => seed.deserialize(ValDe(v)).map(Some),
            None => Ok(None),
        }
    }
    fn size_hint(&self) -> Option<usize> {
        self.hint
    }
}
impl<'de> de::Deserializer<'de> for Replayer {
    type Error = SErr;
    fn deserialize_any<V: Visitor<'de>>(self, visitor: V) -> Result<V::Value, SErr> {
        let mut it = self.log.into_iter();
        match it.next() {
            Some(Ev::MapStart(hint)) => {
                let mut entries = Vec::new();
                let mut key: Option<Val> = None;
                for e in it {
                    match e {
                        Ev::Key(k) => key = Some(k),
                        Ev::Value(v) => entries.push((key.take().ok_or_else(|| SErr("value without key".into()))?, v)),
                        Ev::End => break,
                        other => return Err(SErr(format!("unexpected event {:?} in a map", other))),
                    }
                }
                visitor.visit_map(RepMap { entries: entries.into_iter(), pending: None, hint })
            }
            Some(Ev::SeqStart(hint)) => {
                let mut items = Vec::new();
                for e in it {
                    match e {
                        Ev::Elem(v) => items.push(v),
                        Ev::End => break,
                        other => return Err(SErr(format!("unexpected event {:?} in a sequence", other))),
                    }
                }
                visitor.visit_seq(RepSeq { items: items.into_iter(), hint })
            }
            other => Err(SErr(format!("the log does not start with a map or a sequence: {:?}", other))),
        }
    }
    serde::forward_to_deserialize_any! {
        bool i8 i16 i32 i64 i128 u8 u16 u32 u64 u128 f32 f64 char str string bytes byte_buf option unit unit_struct
        newtype_struct seq tuple tuple_struct map struct enum identifier ignored_any
    }
}
