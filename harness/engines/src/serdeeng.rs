//! C20 engine (feature `serde`): serialize emits exactly len() entries; deserializing the output
//! into a container of sufficient capacity gives one equal to the original.
//!
//! Oracles: (1) recording serializer — the announced length and the number of emitted entries are
//! read off the event log and compared with `len()`, the emitted entries with an independent
//! iteration; (2) replaying deserializer — the recorded stream is decoded into targets of several
//! capacities M >= len and compared with the original by `==` AND entry by entry; (3) bincode
//! (standard and legacy configuration) encode -> decode as an end-to-end binary round trip.

use crate::common::Ctx;
use crate::serde_rec::{Ev, Recorder, Replayer, Scalar, Val};
use micromap::{Map, Set};
use serde::de::DeserializeOwned;
use serde::{Deserialize, Serialize};
use support::fault::{self, Caught};
use support::ledger;
use support::rng::{Fp, Rng};

pub trait SE: Serialize + DeserializeOwned + PartialEq + Clone + std::fmt::Debug + 'static {
    fn mk(x: u32) -> Self;
    const NAME: &'static str;
}
impl SE for u8 {
    fn mk(x: u32) -> Self {
        (x % 251) as u8
    }
    const NAME: &'static str = "u8";
}
impl SE for u32 {
    fn mk(x: u32) -> Self {
        x.wrapping_mul(2_654_435_761)
    }
    const NAME: &'static str = "u32";
}
impl SE for i64 {
    fn mk(x: u32) -> Self {
        i64::from(x) * -7_777_777_777 + 3
    }
    const NAME: &'static str = "i64";
}
impl SE for bool {
    fn mk(x: u32) -> Self {
        x % 2 == 1
    }
    const NAME: &'static str = "bool";
}
impl SE for String {
    fn mk(x: u32) -> Self {
        format!("k\u{e9}y-{}", x)
    }
    const NAME: &'static str = "String";
}

/// A zero-sized element whose serde encoding is the unit struct: `Set<Zs, N>` / `Map<Zs, Zs, N>` have
/// zero-sized PAIRS (pointer walks over them make no progress) and hold at most one entry.
#[derive(Clone, Debug, PartialEq)]
pub struct Zs;
impl Serialize for Zs {
    fn serialize<S: serde::Serializer>(&self, s: S) -> Result<S::Ok, S::Error> {
        s.serialize_unit_struct("Zs")
    }
}
impl<'de> Deserialize<'de> for Zs {
    fn deserialize<D: serde::Deserializer<'de>>(d: D) -> Result<Self, D::Error> {
        struct Vis;
        impl<'de> serde::de::Visitor<'de> for Vis {
            type Value = Zs;
            fn expecting(&self, f: &mut std::fmt::Formatter) -> std::fmt::Result {
                f.write_str("unit struct Zs")
            }
            fn visit_unit<E: serde::de::Error>(self) -> Result<Zs, E> {
                Ok(Zs)
            }
        }
        d.deserialize_unit_struct("Zs", Vis)
    }
}
impl SE for Zs {
    fn mk(_: u32) -> Self {
        Zs
    }
    const NAME: &'static str = "Zs(zero-sized)";
}

/// A one-byte element without drop glue whose serde encoding is NOT its memory byte (the variants are written
/// as the numbers 10, 20, 30): an encoder that ships the raw bytes of the slots produces something else.
#[derive(Clone, Copy, Debug, PartialEq)]
#[repr(u8)]
pub enum Tri {
    A = 0,
    B = 1,
    C = 2,
}
impl Serialize for Tri {
    fn serialize<S: serde::Serializer>(&self, s: S) -> Result<S::Ok, S::Error> {
        s.serialize_u32(10 * (*self as u32 + 1))
    }
}
impl<'de> Deserialize<'de> for Tri {
    fn deserialize<D: serde::Deserializer<'de>>(d: D) -> Result<Self, D::Error> {
        match u32::deserialize(d)? {
            10 => Ok(Tri::A),
            20 => Ok(Tri::B),
            30 => Ok(Tri::C),
            other => Err(serde::de::Error::custom(format!("{} is not an encoded Tri", other))),
        }
    }
}
impl SE for Tri {
    fn mk(x: u32) -> Self {
        [Tri::A, Tri::B, Tri::C][(x % 3) as usize]
    }
    const NAME: &'static str = "Tri(one-byte enum, encoded as 10/20/30)";
}

fn v(what: &str, msg: String) {
    let (_, _, op) = ledger::ctx();
    ledger::violation("C20", format!("{}@{}", what, op), msg);
}

fn val<T: Serialize>(x: &T) -> Val {
    x.serialize(Scalar).unwrap_or(Val::Unit)
}

pub struct Sd<'a> {
    pub cx: &'a mut Ctx,
    pub case_no: u64,
}

/// random history that leaves a map with `want_len` entries in a history-dependent slot order
fn build_map<K: SE, V: SE, const N: usize>(rng: &mut Rng) -> Map<K, V, N> {
    let mut m: Map<K, V, N> = Map::new();
    let u = N as u32 + 3;
    let steps = rng.usize_below(4 * N + 3);
    for i in 0..steps {
        let c = rng.below(u64::from(u)) as u32;
        let k = K::mk(c);
        if rng.chance(1, 3) {
            m.remove(&k);
        } else if m.contains_key(&k) || m.len() < N {
            m.insert(k, V::mk(i as u32));
        }
    }
    if rng.chance(1, 4) {
        // full
        let mut c = 0;
        while m.len() < N && c < 4 * u + 300 {
            let k = K::mk(c);
            if !m.contains_key(&k) {
                m.insert(k, V::mk(c));
            }
            c += 1;
        }
    }
    m
}

impl<'a> Sd<'a> {
    fn decode_map<K: SE, V: SE, const N: usize, const M: usize>(&mut self, orig: &Map<K, V, N>, log: &[Ev], bytes_std: &[u8], bytes_legacy: &[u8], descr: &str) {
        if orig.len() > M {
            return;
        }
        self.cx.rep.evaluations += 1;
        self.cx.rep.hit(&format!("map-decode:{}", if M == orig.len() { "M=len" } else if M == N { "M=N" } else if M > N { "M>N" } else { "len<M<N" }));
        let check = |what: &str, r: Caught<Result<Map<K, V, M>, String>>| match r {
            Caught::Ok(Ok(d)) => {
                if !(d == *orig) || !(*orig == d) {
                    v("decoded-not-equal", format!("{} [{}] into Map<_,_,{}>: decoded != original", what, descr, M));
                }
                let mut a: Vec<(Val, Val)> = d.iter().map(|(k, x)| (val(k), val(x))).collect();
                let mut b: Vec<(Val, Val)> = orig.iter().map(|(k, x)| (val(k), val(x))).collect();
                a.sort();
                b.sort();
                if a != b || d.len() != orig.len() {
                    v("decoded-contents", format!("{} [{}] into Map<_,_,{}>: decoded entries {:?}, original {:?}", what, descr, M, a, b));
                }
            }
            Caught::Ok(Err(e)) => v("decode-fails", format!("{} [{}] into Map<_,_,{}> (capacity >= len) failed: {}", what, descr, M, e)),
            Caught::Panic(msg) => v("decode-panics", format!("{} [{}] into Map<_,_,{}> (capacity >= len) panicked: {}", what, descr, M, msg)),
            Caught::Injected(..) => unreachable!(),
        };
        check("replay of the recorded stream", fault::catch(|| Map::<K, V, M>::deserialize(Replayer { log: log.to_vec() }).map_err(|e| e.0)));
        // decoding IN PLACE into a container that already holds something else (serde's
        // `deserialize_in_place`, which serde itself uses for tuple / array members)
        check(
            "in-place replay into a used container",
            fault::catch(|| {
                let mut place: Map<K, V, M> = Map::new();
                for i in 0..M.min(2) {
                    place.insert(K::mk(7_000 + i as u32), V::mk(9));
                }
                Deserialize::deserialize_in_place(Replayer { log: log.to_vec() }, &mut place).map(|()| place).map_err(|e: crate::serde_rec::SErr| e.0)
            }),
        );
        check(
            "bincode(standard)",
            fault::catch(|| {
                bincode::serde::decode_from_slice::<Map<K, V, M>, _>(bytes_std, bincode::config::standard())
                    .map_err(|e| e.to_string())
                    .and_then(|(x, used)| if used == bytes_std.len() { Ok(x) } else { Err(format!("decoding consumed {} of the {} encoded bytes", used, bytes_std.len())) })
            }),
        );
        check(
            "bincode(legacy)",
            fault::catch(|| {
                bincode::serde::decode_from_slice::<Map<K, V, M>, _>(bytes_legacy, bincode::config::legacy())
                    .map_err(|e| e.to_string())
                    .and_then(|(x, used)| if used == bytes_legacy.len() { Ok(x) } else { Err(format!("decoding consumed {} of the {} encoded bytes", used, bytes_legacy.len())) })
            }),
        );
    }

    pub fn map_case<K: SE, V: SE, const N: usize, const M1: usize, const M2: usize, const M3: usize>(&mut self, hist: u64) {
        let mut rng: Rng = self.cx.hist_rng(hist * 131 + N as u64);
        self.case_no += 1;
        ledger::set_ctx(self.case_no, 0, "Map::serialize");
        let m: Map<K, V, N> = build_map(&mut rng);
        let descr = format!("Map<{},{},{}> len={} keys(slot order)={:?}", K::NAME, V::NAME, N, m.len(), m.keys().map(val).collect::<Vec<_>>());
        let mut fp = Fp::new(0x5E2D + N as u64);
        for (k, x) in m.iter() {
            match val(k) {
                Val::U(a) => fp.add(a),
                Val::I(a) => fp.add(a as u64),
                Val::S(s) => fp.add(support::rng::hash_str(&s)),
                Val::B(b) => fp.add(u64::from(b)),
                Val::Unit => {}
            }
            let _ = x;
        }
        fp.add(support::rng::hash_str(K::NAME) ^ support::rng::hash_str(V::NAME).rotate_left(7));
        if !m.is_empty() {
            self.cx.rep.fps.add(fp.get());
        }
        // (1) recorder
        self.cx.rep.evaluations += 1;
        self.cx.rep.hit(&format!("map-serialize:{}", if m.is_empty() { "empty" } else if m.len() == N { "full" } else { "partial" }));
        if std::mem::size_of::<(K, V)>() == 0 && !m.is_empty() {
            self.cx.rep.hit("zero-sized-pairs:map");
        }
        let mut log: Vec<Ev> = Vec::new();
        let r = m.serialize(Recorder { log: &mut log });
        if let Err(e) = r {
            v("serialize-fails", format!("[{}] serialize failed: {}", descr, e));
            return;
        }
        let announced = match log.first() {
            Some(Ev::MapStart(n)) => *n,
            other => {
                v("stream-shape", format!("[{}] the stream starts with {:?}, not with a map", descr, other));
                None
            }
        };
        let keys = log.iter().filter(|e| matches!(e, Ev::Key(_))).count();
        let vals = log.iter().filter(|e| matches!(e, Ev::Value(_))).count();
        if announced != Some(m.len()) {
            v("announced-length", format!("[{}] the serializer was told {:?} entries, len() = {}", descr, announced, m.len()));
        }
        if keys != m.len() || vals != m.len() {
            v("emitted-count", format!("[{}] {} keys and {} values were emitted, len() = {}", descr, keys, vals, m.len()));
        }
        if log.last() != Some(&Ev::End) || log.iter().filter(|e| **e == Ev::End).count() != 1 {
            v("stream-shape", format!("[{}] the stream is not terminated by exactly one end()", descr));
        }
        // keys and values alternate and are exactly the stored entries
        let mut emitted: Vec<(Val, Val)> = Vec::new();
        let mut pending: Option<Val> = None;
        for e in &log {
            match e {
                Ev::Key(k) => {
                    if pending.is_some() {
                        v("stream-shape", format!("[{}] two keys in a row", descr));
                    }
                    pending = Some(k.clone());
                }
                Ev::Value(x) => match pending.take() {
                    Some(k) => emitted.push((k, x.clone())),
                    None => v("stream-shape", format!("[{}] a value without a key", descr)),
                },
                _ => {}
            }
        }
        let mut stored: Vec<(Val, Val)> = m.iter().map(|(k, x)| (val(k), val(x))).collect();
        emitted.sort();
        stored.sort();
        if emitted != stored {
            v("emitted-entries", format!("[{}] emitted entries {:?}, stored entries {:?}", descr, emitted, stored));
        }
        // (3) bincode encodings
        let bs = bincode::serde::encode_to_vec(&m, bincode::config::standard()).unwrap_or_default();
        let bl = bincode::serde::encode_to_vec(&m, bincode::config::legacy()).unwrap_or_default();
        // (2) decode into several capacities
        self.decode_map::<K, V, N, N>(&m, &log, &bs, &bl, &descr);
        self.decode_map::<K, V, N, M1>(&m, &log, &bs, &bl, &descr);
        self.decode_map::<K, V, N, M2>(&m, &log, &bs, &bl, &descr);
        self.decode_map::<K, V, N, M3>(&m, &log, &bs, &bl, &descr);
        self.foreign_map::<K, V, M1>(&mut rng);
        self.foreign_map::<K, V, N>(&mut rng);
        if self.cx.rep.samples.len() < 3 && !m.is_empty() {
            self.cx.rep.sample(format!("{}: recorded stream {:?}", descr, &log[..log.len().min(7)]));
        }
        if ledger::viol_total() > 0 {
            self.cx.rep.absorb_violations("C20", &|| vec![descr.clone(), format!("history {}", hist)]);
        }
    }

    fn decode_set<T: SE, const N: usize, const M: usize>(&mut self, orig: &Set<T, N>, log: &[Ev], bytes_std: &[u8], descr: &str) {
        if orig.len() > M {
            return;
        }
        self.cx.rep.evaluations += 1;
        self.cx.rep.hit(&format!("set-decode:{}", if M == orig.len() { "M=len" } else if M == N { "M=N" } else if M > N { "M>N" } else { "len<M<N" }));
        let check = |what: &str, r: Caught<Result<Set<T, M>, String>>| match r {
            Caught::Ok(Ok(d)) => {
                if !(d == *orig) || !(*orig == d) {
                    v("decoded-not-equal", format!("{} [{}] into Set<_,{}>: decoded != original", what, descr, M));
                }
                let mut a: Vec<Val> = d.iter().map(val).collect();
                let mut b: Vec<Val> = orig.iter().map(val).collect();
                a.sort();
                b.sort();
                if a != b {
                    v("decoded-contents", format!("{} [{}] into Set<_,{}>: decoded {:?}, original {:?}", what, descr, M, a, b));
                }
            }
            Caught::Ok(Err(e)) => v("decode-fails", format!("{} [{}] into Set<_,{}> failed: {}", what, descr, M, e)),
            Caught::Panic(msg) => v("decode-panics", format!("{} [{}] into Set<_,{}> panicked: {}", what, descr, M, msg)),
            Caught::Injected(..) => unreachable!(),
        };
        check("replay of the recorded stream", fault::catch(|| Set::<T, M>::deserialize(Replayer { log: log.to_vec() }).map_err(|e| e.0)));
        check(
            "in-place replay into a used container",
            fault::catch(|| {
                let mut place: Set<T, M> = Set::new();
                for i in 0..M.min(2) {
                    place.insert(T::mk(7_000 + i as u32));
                }
                Deserialize::deserialize_in_place(Replayer { log: log.to_vec() }, &mut place).map(|()| place).map_err(|e: crate::serde_rec::SErr| e.0)
            }),
        );
        check(
            "bincode(standard)",
            fault::catch(|| {
                bincode::serde::decode_from_slice::<Set<T, M>, _>(bytes_std, bincode::config::standard())
                    .map_err(|e| e.to_string())
                    .and_then(|(x, used)| if used == bytes_std.len() { Ok(x) } else { Err(format!("decoding consumed {} of the {} encoded bytes (the rest of an enclosing value would be misread)", used, bytes_std.len())) })
            }),
        );
        // the container embedded in a larger value: what follows it must still decode
        check(
            "bincode(standard) of (container, marker)",
            fault::catch(|| {
                let enc = bincode::serde::encode_to_vec((orig, 0xA5A5_5A5Au32), bincode::config::standard()).map_err(|e| e.to_string())?;
                let ((x, marker), used): ((Set<T, M>, u32), usize) = bincode::serde::decode_from_slice(&enc, bincode::config::standard()).map_err(|e| e.to_string())?;
                if marker != 0xA5A5_5A5A || used != enc.len() {
                    return Err(format!("the value following the set decoded as {:#x} ({} of {} bytes consumed)", marker, used, enc.len()));
                }
                Ok(x)
            }),
        );
    }

    pub fn set_case<T: SE, const N: usize, const M1: usize, const M2: usize>(&mut self, hist: u64) {
        let mut rng: Rng = self.cx.hist_rng(hist * 137 + 50 + N as u64);
        self.case_no += 1;
        ledger::set_ctx(self.case_no, 0, "Set::serialize");
        let tmp: Map<T, u8, N> = build_map(&mut rng);
        let mut s: Set<T, N> = Set::new();
        for (k, _) in tmp {
            s.insert(k);
        }
        let descr = format!("Set<{},{}> len={} elements(slot order)={:?}", T::NAME, N, s.len(), s.iter().map(val).collect::<Vec<_>>());
        self.cx.rep.evaluations += 1;
        self.cx.rep.hit(&format!("set-serialize:{}", if s.is_empty() { "empty" } else if s.len() == N { "full" } else { "partial" }));
        if std::mem::size_of::<T>() == 0 && !s.is_empty() {
            self.cx.rep.hit("zero-sized-pairs:set");
        }
        let mut log: Vec<Ev> = Vec::new();
        if let Err(e) = s.serialize(Recorder { log: &mut log }) {
            v("serialize-fails", format!("[{}] serialize failed: {}", descr, e));
            return;
        }
        let announced = match log.first() {
            Some(Ev::SeqStart(n)) => *n,
            other => {
                v("stream-shape", format!("[{}] the stream starts with {:?}, not with a sequence", descr, other));
                None
            }
        };
        let elems: Vec<Val> = log.iter().filter_map(|e| if let Ev::Elem(x) = e { Some(x.clone()) } else { None }).collect();
        if announced != Some(s.len()) {
            v("announced-length", format!("[{}] the serializer was told {:?} elements, len() = {}", descr, announced, s.len()));
        }
        if elems.len() != s.len() {
            v("emitted-count", format!("[{}] {} elements were emitted, len() = {}", descr, elems.len(), s.len()));
        }
        if log.last() != Some(&Ev::End) {
            v("stream-shape", format!("[{}] the stream is not terminated by end()", descr));
        }
        let mut a = elems.clone();
        let mut b: Vec<Val> = s.iter().map(val).collect();
        a.sort();
        b.sort();
        if a != b {
            v("emitted-entries", format!("[{}] emitted {:?}, stored {:?}", descr, a, b));
        }
        let bs = bincode::serde::encode_to_vec(&s, bincode::config::standard()).unwrap_or_default();
        self.decode_set::<T, N, N>(&s, &log, &bs, &descr);
        self.decode_set::<T, N, M1>(&s, &log, &bs, &descr);
        self.decode_set::<T, N, M2>(&s, &log, &bs, &descr);
        self.foreign_set::<T, M1>(&mut rng);
        self.foreign_set::<T, N>(&mut rng);
        if ledger::viol_total() > 0 {
            self.cx.rep.absorb_violations("C20", &|| vec![descr.clone(), format!("history {}", hist)]);
        }
    }
    /// Payloads that were NOT written by micromap: a sequence of pairs with REPEATED keys has the same
    /// encoding as a map (and a `Vec<T>` with repeats the same as a set).  Decoding is an operation like any
    /// other: the container it leaves must be well-formed (C05), and if it holds the entries single inserts
    /// would have left it must compare equal to the container built that way (C14).
    fn foreign_map<K: SE, V: SE, const M: usize>(&mut self, rng: &mut Rng) {
        if M == 0 {
            return;
        }
        let l = rng.usize_below(M + 1);
        let u = (M as u64 * 2 / 3).max(1);
        let items: Vec<(K, V)> = (0..l).map(|i| (K::mk(rng.below(u) as u32), V::mk(100 + i as u32))).collect();
        let mut built: Map<K, V, M> = Map::new();
        for (k, x) in items.iter().cloned() {
            built.insert(k, x);
        }
        let repeats = built.len() < items.len();
        self.cx.rep.evaluations += 1;
        self.cx.rep.hit(&format!("foreign-payload:map:{}", if repeats { "repeated-keys" } else { "distinct-keys" }));
        let descr = format!("pairs (key, value) = {:?} decoded as Map<{},{},{}>", items.iter().map(|(k, x)| (val(k), val(x))).collect::<Vec<_>>(), K::NAME, V::NAME, M);
        let mklog = |hint: Option<usize>| {
            let mut log = vec![Ev::MapStart(hint)];
            for (k, x) in &items {
                log.push(Ev::Key(val(k)));
                log.push(Ev::Value(val(x)));
            }
            log.push(Ev::End);
            log
        };
        let bs = bincode::serde::encode_to_vec(&items, bincode::config::standard()).unwrap_or_default();
        let bl = bincode::serde::encode_to_vec(&items, bincode::config::legacy()).unwrap_or_default();
        let decoded: Vec<(&str, Caught<Result<Map<K, V, M>, String>>)> = vec![
            ("stream announcing its exact length", fault::catch(|| Map::<K, V, M>::deserialize(Replayer { log: mklog(Some(l)) }).map_err(|e| e.0))),
            ("stream without a length", fault::catch(|| Map::<K, V, M>::deserialize(Replayer { log: mklog(None) }).map_err(|e| e.0))),
            ("bincode(standard) of a Vec of pairs", fault::catch(|| bincode::serde::decode_from_slice::<Map<K, V, M>, _>(&bs, bincode::config::standard()).map(|x| x.0).map_err(|e| e.to_string()))),
            ("bincode(legacy) of a Vec of pairs", fault::catch(|| bincode::serde::decode_from_slice::<Map<K, V, M>, _>(&bl, bincode::config::legacy()).map(|x| x.0).map_err(|e| e.to_string()))),
        ];
        for (what, r) in decoded {
            let d = match r {
                Caught::Ok(Ok(d)) => d,
                // the property of the round trip speaks about micromap's own output only: a decoder may refuse a
                // foreign payload, but whatever it hands out has to be a well-formed container
                _ => continue,
            };
            let mut ents: Vec<(Val, Val)> = d.iter().map(|(k, x)| (val(k), val(x))).collect();
            let n_iter = ents.len();
            ents.sort();
            let dup = ents.windows(2).any(|w| w[0].0 == w[1].0);
            if dup {
                ledger::violation("C05", "duplicate-key@deserialize(foreign payload)", format!("{} [{}]: the decoded map yields entries {:?} - a key twice", what, descr, ents));
            }
            if d.len() != n_iter || d.len() > M || d.is_empty() != (d.len() == 0) {
                ledger::violation("C05", "len-vs-iteration@deserialize(foreign payload)", format!("{} [{}]: len() = {} but iteration yields {} entries (capacity {})", what, descr, d.len(), n_iter, M));
            }
            for (k, x) in d.iter() {
                if d.get(k) != Some(x) {
                    ledger::violation("C05", "lookup-vs-iteration@deserialize(foreign payload)", format!("{} [{}]: key {:?} is yielded with value {:?} but get() gives {:?}", what, descr, val(k), val(x), d.get(k).map(val)));
                }
            }
            let mut want: Vec<(Val, Val)> = built.iter().map(|(k, x)| (val(k), val(x))).collect();
            want.sort();
            if ents == want && (!(d == built) || !(built == d) || d != built) {
                ledger::violation("C14", "wrong-answer@map==(decoded operand)", format!("{} [{}]: the decoded map holds exactly the entries {:?} of the map built by single inserts but does not compare equal to it", what, descr, want));
            }
        }
    }

    fn foreign_set<T: SE, const M: usize>(&mut self, rng: &mut Rng) {
        if M == 0 {
            return;
        }
        let l = rng.usize_below(M + 1);
        let u = (M as u64 * 2 / 3).max(1);
        let items: Vec<T> = (0..l).map(|_| T::mk(rng.below(u) as u32)).collect();
        let mut built: Set<T, M> = Set::new();
        for k in items.iter().cloned() {
            built.insert(k);
        }
        let repeats = built.len() < items.len();
        self.cx.rep.evaluations += 1;
        self.cx.rep.hit(&format!("foreign-payload:set:{}", if repeats { "repeated-elements" } else { "distinct-elements" }));
        let descr = format!("elements {:?} decoded as Set<{},{}>", items.iter().map(val).collect::<Vec<_>>(), T::NAME, M);
        let mklog = |hint: Option<usize>| {
            let mut log = vec![Ev::SeqStart(hint)];
            for k in &items {
                log.push(Ev::Elem(val(k)));
            }
            log.push(Ev::End);
            log
        };
        let bs = bincode::serde::encode_to_vec(&items, bincode::config::standard()).unwrap_or_default();
        let decoded: Vec<(&str, Caught<Result<Set<T, M>, String>>)> = vec![
            ("stream announcing its exact length", fault::catch(|| Set::<T, M>::deserialize(Replayer { log: mklog(Some(l)) }).map_err(|e| e.0))),
            ("stream without a length", fault::catch(|| Set::<T, M>::deserialize(Replayer { log: mklog(None) }).map_err(|e| e.0))),
            ("bincode(standard) of a Vec", fault::catch(|| bincode::serde::decode_from_slice::<Set<T, M>, _>(&bs, bincode::config::standard()).map(|x| x.0).map_err(|e| e.to_string()))),
        ];
        for (what, r) in decoded {
            let d = match r {
                Caught::Ok(Ok(d)) => d,
                _ => continue,
            };
            let mut ents: Vec<Val> = d.iter().map(val).collect();
            let n_iter = ents.len();
            ents.sort();
            if ents.windows(2).any(|w| w[0] == w[1]) {
                ledger::violation("C05", "duplicate-key@deserialize(foreign payload)", format!("{} [{}]: the decoded set yields {:?} - an element twice", what, descr, ents));
            }
            if d.len() != n_iter || d.len() > M || d.is_empty() != (d.len() == 0) {
                ledger::violation("C05", "len-vs-iteration@deserialize(foreign payload)", format!("{} [{}]: len() = {} but iteration yields {} elements (capacity {})", what, descr, d.len(), n_iter, M));
            }
            for k in d.iter() {
                if !d.contains(k) {
                    ledger::violation("C05", "lookup-vs-iteration@deserialize(foreign payload)", format!("{} [{}]: element {:?} is yielded but contains() denies it", what, descr, val(k)));
                }
            }
            let mut want: Vec<Val> = built.iter().map(val).collect();
            want.sort();
            if ents == want && (!(d == built) || !(built == d) || d != built) {
                ledger::violation("C14", "wrong-answer@set==(decoded operand)", format!("{} [{}]: the decoded set holds exactly the elements {:?} of the set built by single inserts but does not compare equal to it", what, descr, want));
            }
        }
    }
}
