//! Set history engine: random operation histories on a real `micromap::Set` in lock-step with a
//! reference set, full observation sweep after every step.  Tags: C07 (results/membership),
//! C02 (ledger), C05 (well-formedness), C09 (Set::iter), C10 (into_iter / drain), C12 (stored
//! element identity), C15 (clone), C19 (Debug / Display).

use crate::common::{Ctx, Hist};
use crate::fam::{Fam, KeyF};
use crate::maphist::{parse_listing, Cfg};
use crate::model::{Dict, Ent};
use micromap::Set;
use support::fault::{self, Caught};
use support::frame::{addr_of, Frame};
use support::ledger::{self, Ev, KIND_KEY};
use support::rng::{Fp, Rng};

pub struct Sut<F: Fam, const N: usize> {
    pub fr: Box<Frame<Set<F::K, N>>>,
    pub model: Dict,
    pub order: Vec<u32>,
}
impl<F: Fam, const N: usize> Sut<F, N> {
    pub fn new() -> Self {
        Sut {
            fr: Frame::boxed(Set::new()),
            model: Dict::new(N),
            order: Vec::new(),
        }
    }
}

pub const OPS: [&str; 13] = [
    "insert", "replace", "remove", "take", "retain", "clear", "drain", "into_iter", "extend", "fork", "iter_probe", "fmt_probe", "adaptor",
];
const O_INSERT: usize = 0;
const O_REPLACE: usize = 1;
const O_REMOVE: usize = 2;
const O_TAKE: usize = 3;
const O_RETAIN: usize = 4;
const O_CLEAR: usize = 5;
const O_DRAIN: usize = 6;
const O_CONSUME: usize = 7;
const O_EXTEND: usize = 8;
const O_FORK: usize = 9;
const O_ITER: usize = 10;
const O_FMT: usize = 11;
const O_ADAPT: usize = 12;

pub fn weights_for(prop: &str) -> [u32; 19] {
    //            ins rep rem tak ret clr drn con ext frk itr fmt
    let mut w = [16, 8, 8, 6, 3, 1, 2, 1, 4, 1, 2, 1, 2, 0, 0, 0, 0, 0, 0];
    match prop {
        "C07" => {
            w[O_FORK] = 0;
            w[O_FMT] = 0;
        }
        "C02" => {
            w[O_DRAIN] = 6;
            w[O_CONSUME] = 5;
            w[O_FORK] = 3;
            w[O_RETAIN] = 5;
            w[O_CLEAR] = 2;
            w[O_EXTEND] = 6;
            w[O_ADAPT] = 8;
        }
        "C05" => {
            w[O_RETAIN] = 6;
            w[O_EXTEND] = 8;
            w[O_REPLACE] = 10;
        }
        "C09" => {
            w[O_ITER] = 30;
            w[O_ADAPT] = 20;
        }
        "C10" => {
            w[O_DRAIN] = 16;
            w[O_CONSUME] = 16;
            w[O_ADAPT] = 16;
        }
        "C12" => {
            w[O_REPLACE] = 14;
            w[O_TAKE] = 10;
            w[O_EXTEND] = 6;
        }
        "C15" => w[O_FORK] = 14,
        "C19" => w[O_FMT] = 30,
        _ => {}
    }
    w
}

const PROFILES: [&str; 4] = ["uniform", "fill", "churn-at-full", "drain-down"];

fn make_cfg(prop: &str, rng: &mut Rng, allow_forget: bool) -> Cfg {
    let mut w = weights_for(prop);
    let profile = PROFILES[rng.usize_below(PROFILES.len())];
    let mut p_present = 4;
    match profile {
        "fill" => {
            w[O_INSERT] *= 3;
            w[O_REPLACE] *= 2;
            w[O_EXTEND] *= 2;
            p_present = 2;
        }
        "churn-at-full" => {
            w[O_INSERT] *= 2;
            w[O_REPLACE] *= 2;
            w[O_REMOVE] *= 2;
            w[O_TAKE] *= 2;
            w[O_CLEAR] = 0;
            w[O_DRAIN] /= 2;
            w[O_CONSUME] /= 2;
            p_present = 3;
        }
        "drain-down" => {
            w[O_REMOVE] *= 3;
            w[O_TAKE] *= 2;
            w[O_RETAIN] *= 2;
            p_present = 6;
        }
        _ => {}
    }
    Cfg {
        weights: w,
        allow_forget,
        profile,
        p_present,
    }
}

use crate::maphist::{fill_name, pos_name};

macro_rules! lookup {
    ($F:ty, $class:expr, $byq:expr, |$q:ident| $body:expr) => {
        if $byq {
            #[allow(unused_macros)]
            macro_rules! QT { () => { <<$F as Fam>::K as KeyF>::Q } }
            <<$F as Fam>::K as KeyF>::with_q($class, |$q| $body)
        } else {
            #[allow(unused_macros)]
            macro_rules! QT { () => { <$F as Fam>::K } }
            let probe = <<$F as Fam>::K as KeyF>::mk($class, 0xFFFF);
            let $q = &probe;
            $body
        }
    };
}

pub struct Engine<'a> {
    pub cx: &'a mut Ctx,
    pub h: Hist,
    pub rng: Rng,
    pub cfg: Cfg,
    pub universe: u32,
    /// light sweep (Miri / valgrind): look up only the class just operated on and one other
    pub light: bool,
    pub focus: u32,
    /// quiet history: the per-step sweep only iterates; the by-key lookups of every class run on every 16th
    /// step only.  Lookups are operations too - a container that caches something about its last lookup is
    /// put into the same state by every full sweep, and what goes stale between two USER calls stays hidden.
    pub quiet: bool,
}

impl<'a> Engine<'a> {
    /// open a monitored step; in light mode (Miri) the description is not built
    fn step(&mut self, op: &'static str, d: impl FnOnce() -> String) {
        if self.light {
            self.h.begin_step(op, String::new());
            self.cx.rep.hit(op);
        } else {
            self.h.begin_step(op, d());
        }
    }
    fn pick_class<F: Fam, const N: usize>(&mut self, s: &Sut<F, N>) -> u32 {
        let c = self.pick_class0(s);
        self.focus = c;
        c
    }
    fn pick_class0<F: Fam, const N: usize>(&mut self, s: &Sut<F, N>) -> u32 {
        if !s.order.is_empty() && self.rng.below(8) < self.cfg.p_present {
            match self.rng.below(4) {
                0 => s.order[0],
                1 => s.order[s.order.len() - 1],
                _ => s.order[self.rng.usize_below(s.order.len())],
            }
        } else {
            1 + self.rng.below(u64::from(self.universe)) as u32
        }
    }
    fn fp_step<F: Fam, const N: usize>(&mut self, s: &Sut<F, N>, op: usize, class: u32, aux: u64) {
        let mut fp = Fp::new(0x5345_5400 + N as u64);
        for c in &s.order {
            fp.add(u64::from(*c));
        }
        fp.add(0xFFFF_0000 + op as u64);
        fp.add(u64::from(class));
        fp.add(aux);
        let mutates = !matches!(op, O_ITER | O_FMT | O_ADAPT);
        if !s.order.is_empty() || mutates {
            self.cx.rep.fps.add(fp.get());
        }
        self.cx.rep.evaluations += 1;
    }
    fn conservation<F: Fam>(&mut self, stored: usize, whr: &str) {
        if let (Some(live), false) = (F::live_objects().map(|l| l - self.h.live_base), self.h.failed) {
            let want = stored as i64 + self.h.leaked_ok as i64;
            if live != want {
                self.h.viol("C02", if live > want { "leak" } else { "destroyed-too-many" }, format!("{}: {} self-counting element objects are alive but the sets hold {} (harness leaked {})", whr, live, stored, self.h.leaked_ok));
            }
        }
        if !F::TRACKED || self.h.failed {
            return;
        }
        let alive = ledger::alive_count();
        let want = stored + self.h.leaked_ok;
        if alive > want && self.h.fault_leak {
            return; // elements leaked by an injected user panic: tolerated
        }
        if alive > want && self.cx.prop == "C10" {
            // C10's own mechanism ("Drain::drop destroys the rest", "remaining slots are dropped by the wrapped
            // Map's Drop"): an entry the consuming iterator / drain neither yielded nor destroyed is still around
            // after the iterator is gone, so the container was not emptied of it
            let (_, _, op) = ledger::ctx();
            if matches!(op, "drain" | "into_iter" | "adaptor") {
                self.h.viol("C10", "neither-yielded-nor-destroyed", format!("{}: {} instrumented objects outlive a consuming iterator / drain that was dropped (not forgotten) without yielding them", whr, alive - want));
            }
        }
        if alive != want {
            let what = if alive > want { "leak" } else { "destroyed-too-many" };
            let ids = ledger::alive_ids();
            self.h.viol("C02", what, format!("{}: {} live instrumented objects, but the sets hold {} elements and the harness legitimately leaked {}; live ids (first 12): {:x?}", whr, alive, stored, self.h.leaked_ok, &ids[..ids.len().min(12)]));
        }
    }

    /// C05, model-free: runs after EVERY step, also when another oracle has already fired
    pub fn wellformed<F: Fam, const N: usize>(&mut self, s: &Sut<F, N>, whr: &str) {
        let r = fault::catch(|| {
            let m = s.fr.get();
            let mut problems: Vec<(&'static str, String)> = Vec::new();
            let len = m.len();
            if m.is_empty() != (len == 0) {
                problems.push(("is_empty", format!("is_empty() = {} with len() = {}", m.is_empty(), len)));
            }
            if len > m.capacity() || m.capacity() != N {
                problems.push(("len>capacity", format!("len() = {}, capacity() = {}, N = {}", len, m.capacity(), N)));
            }
            let mut seen: Vec<u32> = Vec::new();
            let mut count = 0usize;
            for k in m.iter() {
                count += 1;
                if count > N + 4 {
                    break;
                }
                if !k.chk("iter() element") {
                    continue;
                }
                if seen.contains(&k.class()) {
                    problems.push(("duplicate-key", format!("iteration yields two elements of class {}", k.class())));
                }
                seen.push(k.class());
            }
            if count != len {
                problems.push(("len-vs-iteration", format!("len() = {} but iter() yields {} elements", len, count)));
            }
            problems
        });
        match r {
            Caught::Ok(p) => {
                for (what, msg) in p {
                    self.h.viol("C05", what, format!("{}: {}", whr, msg));
                }
            }
            Caught::Panic(msg) => self.h.viol("C05", "observation-panics", format!("{}: len()/iter() panicked: {}", whr, msg)),
            Caught::Injected(..) => {}
        }
    }

    pub fn sweep<F: Fam, const N: usize>(&mut self, s: &mut Sut<F, N>) {
        if !s.fr.canaries_ok() {
            self.h.viol("MEM", "canary", "memory outside the container was overwritten (canary damaged)".into());
        }
        let m = s.fr.get();
        let len = m.len();
        if len != s.model.len() {
            self.h.viol("C07", "len", format!("len() = {} but the model holds {} elements", len, s.model.len()));
        }
        if m.is_empty() != (len == 0) {
            self.h.viol("C05", "is_empty", format!("is_empty() = {} with len() = {}", m.is_empty(), len));
        }
        if m.capacity() != N {
            self.h.viol("C05", "capacity", format!("capacity() = {} for N = {}", m.capacity(), N));
        }
        if len > m.capacity() {
            self.h.viol("C05", "len>capacity", format!("len() = {} exceeds capacity() = {}", len, m.capacity()));
        }
        let mut seen: Vec<(u32, usize)> = Vec::with_capacity(len);
        let mut count = 0usize;
        let range = s.fr.range();
        for k in m.iter() {
            count += 1;
            if count > N + 4 {
                self.h.viol("C05", "iter-runaway", "iter() yields more than N+4 elements".into());
                break;
            }
            if !k.chk("iter() element") {
                self.h.failed = true;
                continue;
            }
            let ka = addr_of(k);
            if !(ka >= range.0 && ka + std::mem::size_of::<F::K>() <= range.1) {
                self.h.viol("C06", "ref-outside", format!("iter() reference {:#x} outside the container bytes {:#x?}", ka, range));
            }
            let class = k.class();
            if seen.iter().any(|x| x.0 == class) {
                self.h.viol("C05", "duplicate-key", format!("iteration yields two elements of class {}", class));
                continue;
            }
            seen.push((class, ka));
            match s.model.get(class) {
                None => self.h.viol("C07", "phantom-element", format!("iteration yields class {} which the model does not hold", class)),
                Some(e) => {
                    if F::IDENT && (k.tag() != e.tag || k.id() != e.kid) {
                        let msg = format!("class {}: stored element is tag {} id {:#x}, model expects tag {} id {:#x}", class, k.tag(), k.id(), e.tag, e.kid);
                        self.h.viol("C12", "stored-key-identity", msg.clone());
                        // which element OBJECT a set hands back or exposes is part of the result an ideal set gives (C07)
                        self.h.viol("C07", "element-object", msg);
                    }
                }
            }
        }
        if count != len {
            self.h.viol("C05", "len-vs-iteration", format!("len() = {} but iter() yields {} elements", len, count));
        }
        for e in &s.model.ents {
            if !seen.iter().any(|x| x.0 == e.class) {
                self.h.viol("C07", "missing-element", format!("model holds class {} but iteration does not yield it", e.class));
            }
        }
        s.order.clear();
        s.order.extend(seen.iter().map(|x| x.0));
        if self.h.failed {
            return;
        }
        if self.quiet && self.h.step % 16 != 0 {
            return;
        }
        let other = 1 + (self.focus + 1 + self.h.step) % self.universe.max(1);
        for class in 1..=self.universe {
            if self.light && class != self.focus && class != other {
                continue;
            }
            let want = s.model.get(class).cloned();
            for byq in [true, false] {
                let m = s.fr.get();
                let c: bool = lookup!(F, class, byq, |q| m.contains::<QT!()>(q));
                let g: Option<(u32, u64, usize)> = lookup!(F, class, byq, |q| m.get::<QT!()>(q).map(|k| {
                    k.chk("Set::get()");
                    (k.tag(), k.id(), addr_of(k))
                }));
                let how = if byq { "borrowed form" } else { "element" };
                if c != want.is_some() {
                    self.h.viol("C07", "contains", format!("contains(class {}) by {} = {} but the model says {}", class, how, c, want.is_some()));
                }
                match (&want, &g) {
                    (None, None) => {}
                    (Some(e), Some((tag, kid, ka))) => {
                        if F::IDENT && (*tag != e.tag || *kid != e.kid) {
                            let msg = format!("Set::get(class {}) exposes tag {} id {:#x}; the stored element is tag {} id {:#x}", class, tag, kid, e.tag, e.kid);
                            self.h.viol("C12", "get-identity", msg.clone());
                            // which element OBJECT a set hands back or exposes is part of the result an ideal set gives (C07)
                            self.h.viol("C07", "element-object", msg);
                        }
                        if let Some(y) = seen.iter().find(|x| x.0 == class) {
                            if y.1 != *ka {
                                self.h.viol("C05", "lookup-vs-iteration", format!("Set::get(class {}) returns a different object than iteration yields", class));
                            }
                        }
                    }
                    (None, Some(_)) => self.h.viol("C07", "get", format!("Set::get(class {}) by {} finds an absent element", class, how)),
                    (Some(_), None) => {
                        self.h.viol("C07", "get", format!("Set::get(class {}) by {} = None for a present element", class, how));
                        self.h.viol("C05", "lookup-vs-iteration", format!("class {} is yielded by iteration but cannot be looked up by {}", class, how));
                    }
                }
            }
        }
    }

    fn op_insert<F: Fam, const N: usize>(&mut self, s: &mut Sut<F, N>, replace: bool) {
        let class = self.pick_class(s);
        let tag = self.h.tag();
        let name = if replace { "replace" } else { "insert" };
        self.step(name, || format!("{}(K{}#{})", name, class, tag));
        self.fp_step(s, if replace { O_REPLACE } else { O_INSERT }, class, 0);
        let pre = s.model.get(class).cloned();
        let full = s.model.is_full();
        if !self.light { self.cx.rep.hit(&format!("{}:{}:{}", name, pos_name(&s.order, class), fill_name(s.model.len(), N))); }
        let k = F::K::mk(class, tag);
        let kid = k.id();
        let m = s.fr.get_mut();
        // Ok(true/false) for insert; for replace: returned old element (tag,id) or None
        enum R {
            Ins(bool),
            Rep(Option<(u32, u64, u32)>),
        }
        let r: Caught<R> = fault::catch(|| {
            if replace {
                R::Rep(m.replace(k).map(|o| {
                    o.chk("replace() result");
                    (o.tag(), o.id(), o.class())
                }))
            } else {
                R::Ins(m.insert(k))
            }
        });
        let must_panic = pre.is_none() && full;
        match r {
            Caught::Injected(..) => unreachable!(),
            Caught::Panic(msg) => {
                if !must_panic {
                    self.h.viol("C07", "unexpected-panic", format!("{} panicked ({}) although there is room / the element is present", name, msg));
                }
            }
            Caught::Ok(res) => {
                if must_panic {
                    self.h.viol("C07", "no-panic-on-full", format!("{} of a new element into a full set (len {} = N) returned instead of panicking", name, s.model.len()));
                    return;
                }
                match (pre, res) {
                    (None, R::Ins(true)) | (None, R::Rep(None)) => {
                        s.model.push(Ent { class, tag, kid, vid: 0, payload: 0 });
                    }
                    (Some(_), R::Ins(false)) => { /* old element kept; the sweep checks identity */ }
                    (Some(e), R::Rep(Some((otag, oid, oclass)))) => {
                        if oclass != class {
                            self.h.viol("C07", "replace-result", format!("replace(class {}) returned an element of class {}", class, oclass));
                        }
                        if F::IDENT && (otag != e.tag || oid != e.kid) {
                            let msg = format!("replace returned element tag {} id {:#x}; the stored one was tag {} id {:#x}", otag, oid, e.tag, e.kid);
                            self.h.viol("C12", "returned-key-identity", msg.clone());
                            // which element OBJECT a set hands back or exposes is part of the result an ideal set gives (C07)
                            self.h.viol("C07", "element-object", msg);
                        }
                        let me = s.model.get_mut(class).unwrap();
                        me.tag = tag;
                        me.kid = kid;
                    }
                    (pre, res) => {
                        let shown = match res {
                            R::Ins(b) => format!("insert -> {}", b),
                            R::Rep(o) => format!("replace -> Some={}", o.is_some()),
                        };
                        self.h.viol("C07", "result", format!("{}: {} but the element was present={}", name, shown, pre.is_some()));
                    }
                }
            }
        }
    }

    fn op_remove<F: Fam, const N: usize>(&mut self, s: &mut Sut<F, N>, take: bool) {
        let class = self.pick_class(s);
        let byq = self.rng.chance(1, 2);
        let name = if take { "take" } else { "remove" };
        self.step(name, || format!("{}({}{})", name, if byq { "Q" } else { "K" }, class));
        self.fp_step(s, if take { O_TAKE } else { O_REMOVE }, class, u64::from(byq));
        if !self.light { self.cx.rep.hit(&format!("{}:{}:{}", name, pos_name(&s.order, class), fill_name(s.model.len(), N))); }
        let m = s.fr.get_mut();
        let r: (bool, Option<(u32, u64)>) = lookup!(F, class, byq, |q| {
            if take {
                match m.take::<QT!()>(q) {
                    Some(k) => {
                        k.chk("take() result");
                        (true, Some((k.tag(), k.id())))
                    }
                    None => (false, None),
                }
            } else {
                (m.remove::<QT!()>(q), None)
            }
        });
        let want = s.model.remove(class);
        if r.0 != want.is_some() {
            self.h.viol("C07", "remove-presence", format!("{}(class {}) reported present={} but the model says {}", name, class, r.0, want.is_some()));
        }
        if let (true, Some(e), Some((tag, kid))) = (F::IDENT, want, r.1) {
            if tag != e.tag || kid != e.kid {
                let msg = format!("take(class {}) returned tag {} id {:#x}; the stored element was tag {} id {:#x}", class, tag, kid, e.tag, e.kid);
                self.h.viol("C12", "removed-key-identity", msg.clone());
                // which element OBJECT a set hands back or exposes is part of the result an ideal set gives (C07)
                self.h.viol("C07", "element-object", msg);
            }
        }
    }

    fn op_retain<F: Fam, const N: usize>(&mut self, s: &mut Sut<F, N>) {
        let mask = self.rng.next();
        let len0 = s.model.len();
        // sometimes the predicate panics at its k-th call (C04 meets C07: membership must stay a set)
        let panic_at: Option<usize> = if len0 > 0 && self.rng.chance(1, 6) { Some(1 + self.rng.usize_below(len0)) } else { None };
        self.step("retain", || format!("retain(mask={:#06x}{})", mask & 0xFFFF, panic_at.map_or(String::new(), |k| format!(", predicate panics at call {}", k))));
        self.fp_step(s, O_RETAIN, u32::from(panic_at.is_some()), mask & ((1u64.checked_shl(self.universe + 1).unwrap_or(0).wrapping_sub(1))));
        let keep = |class: u32| (mask >> (class % 60)) & 1 == 1;
        let nkeep = s.model.ents.iter().filter(|e| keep(e.class)).count();
        let outcome = if panic_at.is_some() { "predicate-panics" } else if nkeep == s.model.len() { "keep-all" } else if nkeep == 0 { "drop-all" } else { "some" };
        if !self.light { self.cx.rep.hit(&format!("retain:{}:{}", outcome, fill_name(s.model.len(), N))); }
        let mut calls: Vec<u32> = Vec::new();
        let r = {
            let set = s.fr.get_mut();
            fault::catch(|| {
                set.retain(|k| {
                    k.chk("retain() element");
                    calls.push(k.class());
                    if Some(calls.len()) == panic_at {
                        std::panic::panic_any(fault::Injected(fault::Cb::Closure, 0));
                    }
                    keep(k.class())
                })
            })
        };
        match r {
            Caught::Ok(()) => {
                let mut sorted = calls.clone();
                sorted.sort_unstable();
                let mut want = s.model.classes();
                want.sort_unstable();
                if sorted != want {
                    self.h.viol("C07", "retain-visits", format!("retain asked its predicate about classes {:?}; the stored classes were {:?}", calls, want));
                }
                s.model.ents.retain(|e| keep(e.class));
            }
            Caught::Injected(..) => {
                // interrupted retain: which rejected elements are already gone is the implementation's
                // business, but membership must still be a set made of previous members, and nothing
                // the predicate accepted or was never asked about may have disappeared
                self.h.fault_leak = true;
                self.cx.rep.num("retains_interrupted_by_a_predicate_panic", 1);
                let asked = &calls[..calls.len().saturating_sub(1)];
                let present: Vec<u32> = s.fr.get().iter().map(|k| k.class()).collect();
                let mut dedup = present.clone();
                dedup.sort_unstable();
                dedup.dedup();
                if dedup.len() != present.len() {
                    self.h.viol("C07", "not-a-set-after-interrupted-retain", format!("after a retain interrupted by a predicate panic the set yields classes {:?}: an element is stored twice, so remove() and contains() contradict each other", present));
                }
                for c in &present {
                    if s.model.get(*c).is_none() {
                        self.h.viol("C07", "phantom-after-interrupted-retain", format!("after an interrupted retain the set holds class {} which it did not hold before", c));
                    }
                }
                for e in &s.model.ents {
                    let must_stay = !calls.contains(&e.class) || (asked.contains(&e.class) && keep(e.class)) || calls.last() == Some(&e.class);
                    if must_stay && !present.contains(&e.class) {
                        self.h.viol("C07", "lost-by-interrupted-retain", format!("class {} was accepted by (or never shown to) the predicate but is gone after the interrupted retain", e.class));
                    }
                }
                s.model.ents.retain(|e| present.contains(&e.class));
            }
            Caught::Panic(msg) => self.h.viol("C07", "unexpected-panic", format!("retain panicked: {}", msg)),
        }
    }

    fn op_clear<F: Fam, const N: usize>(&mut self, s: &mut Sut<F, N>) {
        self.step("clear", || "clear()".into());
        self.fp_step(s, O_CLEAR, 0, 0);
        if !self.light { self.cx.rep.hit(&format!("clear:{}", fill_name(s.model.len(), N))); }
        s.fr.get_mut().clear();
        s.model.clear();
    }

    fn op_extend<F: Fam, const N: usize>(&mut self, s: &mut Sut<F, N>) {
        let n = self.rng.usize_below(5);
        let mut items: Vec<(u32, u32)> = Vec::new();
        for _ in 0..n {
            let c = self.pick_class(s);
            let t = self.h.tag();
            items.push((c, t));
        }
        self.step("extend", || format!("extend({:?})", items));
        let mut aux = 0u64;
        for (c, _) in &items {
            aux = aux.wrapping_mul(31).wrapping_add(u64::from(*c));
        }
        self.fp_step(s, O_EXTEND, n as u32, aux);
        // model: insert one by one, in order; panic at the first new element that does not fit
        let mut model = s.model.clone();
        let ks: Vec<F::K> = items.iter().map(|(c, t)| F::K::mk(*c, *t)).collect();
        let mut overflow = false;
        for k in &ks {
            if model.get(k.class()).is_none() {
                if model.is_full() {
                    overflow = true;
                    break;
                }
                model.push(Ent { class: k.class(), tag: k.tag(), kid: k.id(), vid: 0, payload: 0 });
            }
        }
        if !self.light { self.cx.rep.hit(&format!("extend:{}:{}", if overflow { "overflow" } else if n == 0 { "empty" } else { "fits" }, fill_name(s.model.len(), N))); }
        let m = s.fr.get_mut();
        let r = fault::catch(|| m.extend(ks));
        match r {
            Caught::Ok(()) => {
                if overflow {
                    self.h.viol("C07", "no-panic-on-full", "extend with more new elements than free slots returned instead of panicking".into());
                }
            }
            Caught::Panic(msg) => {
                if !overflow {
                    self.h.viol("C07", "unexpected-panic", format!("extend panicked ({}) although everything fits", msg));
                }
            }
            Caught::Injected(..) => unreachable!(),
        }
        s.model = model;
    }

    fn op_drain<F: Fam, const N: usize>(&mut self, s: &mut Sut<F, N>) {
        let len = s.model.len();
        let j = self.rng.usize_below(len + 2);
        let forget = self.cfg.allow_forget && self.rng.chance(1, 4);
        self.step("drain", || format!("drain() take {} then {}", j, if forget { "forget" } else { "drop" }));
        self.fp_step(s, O_DRAIN, j as u32, u64::from(forget));
        if !self.light { self.cx.rep.hit(&format!("drain:{}:{}:{}", if j == 0 { "take0" } else if j >= len { "take-all" } else { "take-some" }, if forget { "forget" } else { "drop" }, fill_name(len, N))); }
        let before = s.model.clone();
        let mut yielded: Vec<u32> = Vec::new();
        {
            let m = s.fr.get_mut();
            let mut d = m.drain();
            for step in 0..j {
                let remaining = len.saturating_sub(step);
                let (lo, hi) = d.size_hint();
                if d.len() != remaining || lo != remaining || hi != Some(remaining) {
                    self.h.viol("C10", "drain-len", format!("Set::drain after {} of {} items: len() = {}, size_hint = ({}, {:?})", step, len, d.len(), lo, hi));
                }
                match d.next() {
                    Some(k) => {
                        if !k.chk("drain item") {
                            self.h.failed = true;
                            break;
                        }
                        let class = k.class();
                        match before.get(class) {
                            Some(e) if !yielded.contains(&class) => {
                                if F::TRACKED && k.id() != e.kid {
                                    self.h.viol("C10", "drain-identity", format!("Set::drain yielded class {} as object {:#x}; the set held {:#x}", class, k.id(), e.kid));
                                }
                            }
                            Some(_) => self.h.viol("C10", "drain-repeat", format!("Set::drain yielded class {} twice", class)),
                            None => self.h.viol("C10", "drain-phantom", format!("Set::drain yielded class {} which the set did not hold", class)),
                        }
                        yielded.push(class);
                    }
                    None => {
                        if step < len {
                            self.h.viol("C10", "drain-short", format!("Set::drain ended after {} items; the set held {}", step, len));
                        }
                        for _ in 0..2 {
                            if d.next().is_some() {
                                self.h.viol("C10", "drain-not-fused", "Set::drain yielded Some after None".into());
                            }
                        }
                        break;
                    }
                }
            }
            if forget {
                std::mem::forget(d);
            } else if self.rng.chance(1, 3) {
                if !self.light { self.cx.rep.hit("drain:dropped-by-unwinding"); }
                let _ = fault::catch(move || {
                    let _hold = d;
                    panic!("the consumer of the drain panics");
                });
            } else {
                drop(d);
            }
        }
        let not_yielded: Vec<Ent> = before.ents.iter().filter(|e| !yielded.contains(&e.class)).cloned().collect();
        if forget {
            let m = s.fr.get();
            let mut kept: Vec<Ent> = Vec::new();
            for k in m.iter() {
                if !k.chk("after forgotten drain") {
                    self.h.failed = true;
                    break;
                }
                match not_yielded.iter().find(|e| e.class == k.class()) {
                    Some(e) => kept.push(e.clone()),
                    None => self.h.viol("C10", "forgotten-drain-contents", format!("after a forgotten drain the set holds class {} which is not one of the un-yielded elements", k.class())),
                }
            }
            self.h.leaked_ok += not_yielded.len() - kept.len().min(not_yielded.len());
            s.model.ents = kept;
        } else {
            s.model.clear();
            let m = s.fr.get();
            if m.len() != 0 || !m.is_empty() || m.iter().next().is_some() {
                self.h.viol("C10", "drain-not-empty", format!("after Set::drain() (took {} of {}) was dropped the set is not empty: len() = {}", j, len, m.len()));
                self.h.failed = true;
            }
        }
    }

    fn op_consume<F: Fam, const N: usize>(&mut self, s: &mut Sut<F, N>) {
        let len = s.model.len();
        let j = self.rng.usize_below(len + 2);
        let forget = self.cfg.allow_forget && self.rng.chance(1, 4);
        self.step("into_iter", || format!("into_iter() take {} then {}", j, if forget { "forget" } else { "drop" }));
        self.fp_step(s, O_CONSUME, j as u32, u64::from(forget));
        if !self.light { self.cx.rep.hit(&format!("into_iter:{}:{}:{}", if j == 0 { "take0" } else if j >= len { "take-all" } else { "take-some" }, if forget { "forget" } else { "drop" }, fill_name(len, N))); }
        let before = std::mem::replace(&mut s.model, Dict::new(N));
        let set = s.fr.take();
        let mut it = set.into_iter();
        let mut got: Vec<(u32, u64)> = Vec::new();
        for step in 0..j {
            let remaining = len.saturating_sub(step);
            let (lo, hi) = it.size_hint();
            if it.len() != remaining || lo != remaining || hi != Some(remaining) {
                self.h.viol("C10", "consume-len", format!("Set::into_iter after {} of {} items: len() = {}, size_hint = ({}, {:?})", step, len, it.len(), lo, hi));
            }
            match it.next() {
                Some(k) => {
                    if !k.chk("into_iter item") {
                        self.h.failed = true;
                        break;
                    }
                    got.push((k.class(), k.id()));
                }
                None => {
                    if step < len {
                        self.h.viol("C10", "consume-short", format!("Set::into_iter ended after {} items; the set held {}", step, len));
                    }
                    for _ in 0..2 {
                        if it.next().is_some() {
                            self.h.viol("C10", "consume-not-fused", "Set::into_iter yielded Some after None".into());
                        }
                    }
                    break;
                }
            }
        }
        if forget {
            std::mem::forget(it);
        } else if self.rng.chance(1, 3) {
            if !self.light { self.cx.rep.hit("consume:dropped-by-unwinding"); }
            let _ = fault::catch(move || {
                let _hold = it;
                panic!("the consumer of the iterator panics");
            });
        } else {
            drop(it);
        }
        let mut used = vec![false; before.len()];
        for (c, id) in &got {
            match before.ents.iter().enumerate().find(|(i, e)| !used[*i] && e.class == *c && (!F::TRACKED || e.kid == *id)) {
                Some((i, _)) => used[i] = true,
                None => self.h.viol("C10", "consume-contents", format!("Set::into_iter yielded class {} which is not a not-yet-yielded element (repeat or phantom)", c)),
            }
        }
        if forget {
            self.h.leaked_ok += before.len() - got.len().min(before.len());
        }
        s.fr.put(Set::new());
        s.order.clear();
    }

    fn op_iter_probe<F: Fam, const N: usize>(&mut self, s: &mut Sut<F, N>) {
        let len = s.model.len();
        let j = self.rng.usize_below(len + 1);
        self.step("iter_probe", || format!("Set::iter() probe, clone/count at step {}", j));
        self.fp_step(s, O_ITER, j as u32, 0);
        if !self.light { self.cx.rep.hit(&format!("set-iter:{}", fill_name(len, N))); }
        let m = s.fr.get();
        let mut it = m.iter();
        let mut seq: Vec<(u32, u64)> = Vec::new();
        for step in 0..=len {
            if step == j {
                let a: Vec<u64> = it.clone().map(|k| k.id() ^ u64::from(k.class())).collect();
                let b: Vec<u64> = it.clone().map(|k| k.id() ^ u64::from(k.class())).collect();
                if a != b {
                    self.h.viol("C09", "clone-diverges", "Set::iter: two clones of a partially consumed iterator continue differently".into());
                }
                let cnt = it.clone().count();
                if cnt != len - j {
                    self.h.viol("C09", "count", format!("Set::iter: count() after {} of {} items = {}", j, len, cnt));
                }
                if a.len() != len - j {
                    self.h.viol("C09", "clone-diverges", format!("Set::iter: a clone taken after {} of {} items yields {} more", j, len, a.len()));
                }
                // clone_from: an iterator at ANOTHER position, overwritten in place, continues like its source
                let adv = (j + 1 + (j * 5) % len.max(1)) % (len + 1); // a different position whenever len > 0 allows
                        let adv = if adv == j { (j + 1) % (len + 1) } else { adv };
                let mut c = m.iter();
                for _ in 0..adv {
                    c.next();
                }
                c.clone_from(&it);
                let (cl, ch) = (c.len(), c.size_hint());
                let x: Vec<u64> = c.map(|k| k.id() ^ u64::from(k.class())).collect();
                if x != a || cl != len - j || ch != (len - j, Some(len - j)) {
                    self.h.viol("C09", "clone_from-diverges", format!("Set::iter: an iterator advanced by {} and then overwritten with clone_from(&original after {} of {} items) reports len {} and yields {} more items instead of {}", adv, j, len, cl, x.len(), a.len()));
                }
            }
            let remaining = len - step;
            let (lo, hi) = it.size_hint();
            if it.len() != remaining || lo != remaining || hi != Some(remaining) {
                self.h.viol("C09", "iter-len", format!("Set::iter after {} of {} items: len() = {}, size_hint = ({}, {:?})", step, len, it.len(), lo, hi));
            }
            match it.next() {
                Some(k) => {
                    if step >= len {
                        self.h.viol("C09", "iter-extra", "Set::iter yields more than len() items".into());
                        break;
                    }
                    k.chk("Set::iter item");
                    seq.push((k.class(), k.id()));
                }
                None => {
                    if step < len {
                        self.h.viol("C09", "iter-short", format!("Set::iter ended after {} of {} items", step, len));
                    }
                    for _ in 0..3 {
                        if it.next().is_some() {
                            self.h.viol("C09", "iter-not-fused", "Set::iter yields Some after None".into());
                        }
                    }
                    break;
                }
            }
        }
        let again: Vec<(u32, u64)> = m.iter().map(|k| (k.class(), k.id())).collect();
        if again != seq {
            self.h.viol("C09", "order-unstable", "Set::iter: two traversals without mutation differ".into());
        }
        let via_ref: Vec<(u32, u64)> = (&*m).into_iter().map(|k| (k.class(), k.id())).collect();
        if via_ref != seq {
            self.h.viol("C09", "order-unstable", "(&set).into_iter() differs from set.iter()".into());
        }
        let mut got = seq.clone();
        got.sort_unstable();
        let mut want: Vec<(u32, u64)> = s.model.ents.iter().map(|e| (e.class, if F::TRACKED { e.kid } else { 0 })).collect();
        want.sort_unstable();
        if got != want {
            self.h.viol("C09", "iter-contents", format!("Set::iter yielded {:?}; the stored elements are {:?}", got, want));
        }
    }

    /// Set::iter / Set::drain / Set::into_iter consumed through std adaptor and consumer methods
    fn op_adaptor<F: Fam, const N: usize>(&mut self, s: &mut Sut<F, N>) {
        use crate::common::{drive_pre, STYLES};
        let kind = self.rng.usize_below(4);
        let kname = ["iter", "(&set).into_iter", "drain", "into_iter"][kind];
        let style = 1 + self.rng.usize_below(STYLES.len() - 1);
        let len = s.model.len();
        let j = self.rng.usize_below(len + 2);
        // half of the probes first step the iterator `pre` times with next() (up to and beyond its end)
        let pre = if self.rng.chance(1, 2) { 0 } else { self.rng.usize_below(len + 2) };
        self.step("adaptor", || format!("Set::{}().{} j={} after {} next() calls", kname, STYLES[style], j, pre));
        self.fp_step(s, O_ADAPT, (kind * 1000 + style * 50 + j) as u32, pre as u64);
        if pre >= len && len > 0 && !self.light { self.cx.rep.hit(&format!("adaptor-on-exhausted:{}", kname)); }
        if !self.light { self.cx.rep.hit(&format!("adaptor:{}:{}", kname, STYLES[style])); }
        let reference: Vec<(u32, u64)> = s.fr.get().iter().map(|k| (k.class(), if F::TRACKED { k.id() } else { 0 })).collect();
        let prop = if kind < 2 { "C09" } else { "C10" };
        let mut got: Vec<(u32, u64)> = Vec::new();
        let positions: Vec<usize>;
        let counted: Option<usize>;
        let idk = |k: &F::K| { k.chk("adaptor element"); (k.class(), if F::TRACKED { k.id() } else { 0 }) };
        match kind {
            0 => {
                let (items, pos, c) = drive_pre(s.fr.get().iter(), pre, style, j, len);
                got.extend(items.iter().map(|k| idk(k)));
                positions = pos; counted = c;
            }
            1 => {
                let (items, pos, c) = drive_pre(s.fr.get().into_iter(), pre, style, j, len);
                got.extend(items.iter().map(|k| idk(k)));
                positions = pos; counted = c;
            }
            2 => {
                let (items, pos, c) = drive_pre(s.fr.get_mut().drain(), pre, style, j, len);
                got.extend(items.iter().map(idk));
                positions = pos; counted = c;
                drop(items);
                s.model.clear();
                let m = s.fr.get();
                if m.len() != 0 || m.iter().next().is_some() {
                    self.h.viol("C10", "drain-not-empty", format!("after Set::drain().{} the set is not empty: len() = {}", STYLES[style], m.len()));
                    self.h.failed = true;
                }
            }
            _ => {
                s.model = Dict::new(N);
                let set = s.fr.take();
                let (items, pos, c) = drive_pre(set.into_iter(), pre, style, j, len);
                got.extend(items.iter().map(idk));
                positions = pos; counted = c;
                s.fr.put(Set::new());
                s.order.clear();
            }
        }
        if let Some(c) = counted {
            if c != len {
                self.h.viol(prop, "adaptor-count", format!("Set::{}().count() = {} for {} elements", kname, c, len));
            }
            return;
        }
        if got.len() != positions.len() {
            self.h.viol(prop, "adaptor-yield-count", format!("Set::{}().{} (j={}) on {} elements yielded {} items; next() semantics gives {}", kname, STYLES[style], j, len, got.len(), positions.len()));
        }
        if kind < 2 {
            let want: Vec<(u32, u64)> = positions.iter().filter_map(|p| reference.get(*p)).copied().collect();
            if got != want {
                self.h.viol("C09", "adaptor-items", format!("Set::{}().{} (j={}) yielded {:?}; stepping with next() gives {:?}", kname, STYLES[style], j, got, want));
            }
        } else {
            let mut used = vec![false; reference.len()];
            for g in &got {
                match reference.iter().enumerate().find(|(i, e)| !used[*i] && *e == g) {
                    Some((i, _)) => used[i] = true,
                    None => self.h.viol("C10", "adaptor-items", format!("Set::{}().{} yielded {:?}, which is not a not-yet-yielded element (repeat or phantom)", kname, STYLES[style], g)),
                }
            }
        }
    }

    fn op_fmt_probe<F: Fam, const N: usize>(&mut self, s: &mut Sut<F, N>) {
        let which = self.rng.usize_below(3);
        let names = ["set-debug", "set-alt-debug", "set-display"];
        self.step("fmt_probe", || format!("fmt probe {}", names[which]));
        self.fp_step(s, O_FMT, which as u32, 0);
        if !self.light { self.cx.rep.hit(&format!("fmt:{}:{}", names[which], fill_name(s.model.len(), N))); }
        if self.rng.chance(1, 3) {
            use std::fmt::Write as _;
            let mut sink = crate::common::Bounded { left: self.rng.usize_below(24) };
            let r = fault::catch(|| {
                let m = s.fr.get();
                let a = write!(sink, "{}", m).is_err();
                let b = write!(sink, "{:?}", m).is_err();
                (a, b)
            });
            if let Caught::Panic(msg) = r {
                self.h.viol("C19", "failing-sink-panics", format!("formatting into a sink that returns Err panicked: {}", msg));
            }
            if !self.light { self.cx.rep.hit("fmt:after-failing-sink"); }
        }
        let m = s.fr.get();
        let obs: Vec<(u32, u32)> = m.iter().map(|k| (k.class(), k.tag())).collect();
        match which {
            0 => {
                let got = format!("{:?}", m);
                let mut want = String::from("{");
                for (i, e) in obs.iter().enumerate() {
                    if i > 0 {
                        want.push_str(", ");
                    }
                    want.push_str(&F::K::dbg_render(e.0, e.1));
                }
                want.push('}');
                let refs: Vec<&F::K> = m.iter().collect();
                let want2 = format!("{:?}", StdSet(&refs));
                if got != want || got != want2 {
                    self.h.viol("C19", "set-debug", format!("Debug is `{}`, expected `{}`", got, want));
                }
            }
            1 => {
                let got = format!("{:#?}", m);
                let mut want = String::from("{");
                if !obs.is_empty() {
                    want.push('\n');
                    for e in &obs {
                        want.push_str("    ");
                        want.push_str(&F::K::dbg_render(e.0, e.1));
                        want.push_str(",\n");
                    }
                }
                want.push('}');
                let refs: Vec<&F::K> = m.iter().collect();
                let want2 = format!("{:#?}", StdSet(&refs));
                if got != want || got != want2 {
                    self.h.viol("C19", "set-debug", format!("alternate Debug is `{}`, expected `{}`", got, want));
                }
            }
            _ => {
                let got = format!("{}", m);
                let mut want = String::from("{");
                for (i, e) in obs.iter().enumerate() {
                    if i > 0 {
                        want.push_str(", ");
                    }
                    want.push_str(&F::K::disp_render(e.0, e.1));
                }
                want.push('}');
                if got != want {
                    self.h.viol("C19", "set-display", format!("Display is `{}`, expected `{}`", got, want));
                }
            }
        }
        let _ = parse_listing;
    }

    fn op_fork<F: Fam, const N: usize>(&mut self, s: &mut Sut<F, N>) -> Option<Sut<F, N>> {
        self.step("fork", || "clone()".into());
        self.fp_step(s, O_FORK, 0, 0);
        if !self.light { self.cx.rep.hit(&format!("clone:{}", fill_name(s.model.len(), N))); }
        let cc0 = F::clone_counts();
        ledger::log_start();
        let c: Set<F::K, N> = s.fr.get().clone();
        let log = ledger::log_take();
        if let (Some(a), Some(b)) = (cc0, F::clone_counts()) {
            let n = s.model.len() as u64;
            if b.0 - a.0 != n {
                self.h.viol("C15", "clone-count", format!("Set::clone of {} elements called Clone::clone {} times", n, b.0 - a.0));
            }
            for k in c.iter() {
                if s.fr.get().iter().any(|ok| ok.serial() == k.serial()) {
                    self.h.viol("C15", "clone-bitwise-copy", format!("Set::clone: the copy's element of class {} carries the same serial as the original: duplicated without calling Clone::clone", k.class()));
                }
            }
        }
        let mut model = Dict::new(N);
        if F::TRACKED {
            let mut kclones: Vec<(u64, u64)> = Vec::new();
            for ev in &log {
                match ev {
                    Ev::Clone { from, to, kind } if *kind == KIND_KEY => kclones.push((*from, *to)),
                    Ev::Clone { from, .. } => self.h.viol("C15", "clone-of-foreign-object", format!("Set::clone cloned a non-element object {:#x}", from)),
                    Ev::New { id, .. } => self.h.viol("C15", "clone-creates-object", format!("clone() created a fresh object {:#x}", id)),
                    Ev::Drop { id, .. } => self.h.viol("C15", "clone-drops-object", format!("clone() destroyed object {:#x}", id)),
                    _ => {}
                }
            }
            for e in &s.model.ents {
                let kc: Vec<&(u64, u64)> = kclones.iter().filter(|x| x.0 == e.kid).collect();
                if kc.len() != 1 {
                    self.h.viol("C15", "clone-count", format!("Set::clone: element of class {} cloned {} times (must be exactly once)", e.class, kc.len()));
                } else {
                    model.push(Ent { class: e.class, tag: e.tag, kid: kc[0].1, vid: 0, payload: 0 });
                }
            }
            if kclones.len() != s.model.len() {
                self.h.viol("C15", "clone-count", format!("Set::clone of {} elements made {} clones", s.model.len(), kclones.len()));
            }
        } else {
            model = s.model.clone();
        }
        if !(&c == s.fr.get()) || !(s.fr.get() == &c) {
            self.h.viol("C15", "clone-not-equal", "Set::clone() != original".into());
        }
        Some(Sut { fr: Frame::boxed(c), model, order: Vec::new() })
    }

    fn op_clone_from<F: Fam, const N: usize>(&mut self, suts: &mut [Sut<F, N>], ix: usize) {
        let (tl, sl) = (suts[ix].model.len(), suts[1 - ix].model.len());
        self.step("clone_from", || format!("set copy#{}.clone_from(copy#{}) target holds {}, source holds {}", ix, 1 - ix, tl, sl));
        self.cx.rep.evaluations += 1;
        if !self.light { self.cx.rep.hit(&format!("clone_from:{}", if tl > sl { "target-longer" } else if tl == sl { "same-length" } else { "target-shorter" })); }
        let (a, b) = suts.split_at_mut(1);
        let (target, source) = if ix == 0 { (&mut a[0], &b[0]) } else { (&mut b[0], &a[0]) };
        let cc0 = F::clone_counts();
        ledger::log_start();
        target.fr.get_mut().clone_from(source.fr.get());
        let log = ledger::log_take();
        let n = source.model.len() as u64;
        if let (Some(x), Some(y)) = (cc0, F::clone_counts()) {
            if y.0 - x.0 != n {
                self.h.viol("C15", "clone-count", format!("Set::clone_from a source of {} elements called Clone::clone {} times", n, y.0 - x.0));
            }
        }
        let mut model = Dict::new(N);
        if F::TRACKED {
            let kc: Vec<(u64, u64)> = log.iter().filter_map(|e| if let Ev::Clone { from, to, kind } = e { if *kind == KIND_KEY { Some((*from, *to)) } else { None } } else { None }).collect();
            if kc.len() as u64 != n {
                self.h.viol("C15", "clone-count", format!("Set::clone_from a source of {} elements made {} clones", n, kc.len()));
            }
            for e in &source.model.ents {
                let k: Vec<&(u64, u64)> = kc.iter().filter(|x| x.0 == e.kid).collect();
                if k.len() == 1 {
                    model.push(Ent { class: e.class, tag: e.tag, kid: k[0].1, vid: 0, payload: 0 });
                } else {
                    self.h.viol("C15", "clone-count", format!("Set::clone_from: element of class {} cloned {} times", e.class, k.len()));
                }
            }
        } else {
            model = source.model.clone();
        }
        target.model = model;
        if !(target.fr.get() == source.fr.get()) || !(source.fr.get() == target.fr.get()) {
            self.h.viol("C15", "clone-not-equal", format!("after Set::clone_from the target (len {}) != the source (len {})", target.fr.get().len(), source.fr.get().len()));
        }
    }

    fn one_op<F: Fam, const N: usize>(&mut self, suts: &mut Vec<Sut<F, N>>) {
        let ix = if suts.len() > 1 { self.rng.usize_below(suts.len()) } else { 0 };
        let op = self.rng.weighted(&self.cfg.weights[..13]);
        macro_rules! s { () => { &mut suts[ix] } }
        match op {
            O_INSERT => self.op_insert(s!(), false),
            O_REPLACE => self.op_insert(s!(), true),
            O_REMOVE => self.op_remove(s!(), false),
            O_TAKE => self.op_remove(s!(), true),
            O_RETAIN => self.op_retain(s!()),
            O_CLEAR => self.op_clear(s!()),
            O_DRAIN => self.op_drain(s!()),
            O_CONSUME => self.op_consume(s!()),
            O_EXTEND => self.op_extend(s!()),
            O_ITER => self.op_iter_probe(s!()),
            O_FMT => self.op_fmt_probe(s!()),
            O_ADAPT => self.op_adaptor(s!()),
            O_FORK => {
                if suts.len() < 2 {
                    let t = self.op_fork(s!());
                    if let Some(t) = t {
                        suts.push(t);
                    }
                } else if self.rng.chance(1, 2) {
                    self.op_clone_from(&mut suts[..], ix);
                } else {
                    self.step("drop-copy", || format!("drop copy #{}", ix));
                    self.cx.rep.evaluations += 1;
                    self.cx.rep.hit("drop-copy");
                    let dead = suts.remove(ix);
                    if self.rng.chance(1, 3) {
                        self.cx.rep.hit("drop-copy:by-unwinding");
                        let _ = fault::catch(move || {
                            let _hold = dead;
                            panic!("the owner of the container panics");
                        });
                    } else {
                        drop(dead);
                    }
                }
            }
            _ => unreachable!(),
        }
        let mut total = 0;
        for s in suts.iter_mut() {
            if self.h.failed {
                self.wellformed(s, "after a step in which another oracle fired");
            } else {
                self.sweep(s);
            }
            total += s.model.len();
        }
        self.conservation::<F>(total, "after step");
    }

    /// Starting states from every constructor: `default`, `From<[T; N]>` with and without repeats,
    /// `from_iter` (the first element object of a class stays).
    fn construct<F: Fam, const N: usize>(&mut self, s: &mut Sut<F, N>) {
        let which = self.rng.usize_below(3);
        let name = ["Set::default", "Set::from(array)", "Set::from_iter"][which];
        self.step("construct", || format!("{}()", name));
        if !self.light { self.cx.rep.hit(&format!("construct:{}:{}", name, if N == 0 { "N=0" } else { "N>0" })); }
        drop(s.fr.take());
        let mut model = Dict::new(N);
        let count = match which {
            1 => N,
            2 => if N == 0 { 0 } else { self.rng.usize_below(2 * N + 2) },
            _ => 0,
        };
        let mut items: Vec<F::K> = Vec::new();
        let mut descr: Vec<(u32, u32)> = Vec::new();
        for _ in 0..count {
            let mut class = <F::K as KeyF>::norm(1 + self.rng.below(u64::from(self.universe)) as u32);
            if model.find(class).is_none() && model.is_full() {
                class = model.ents[self.rng.usize_below(model.len())].class;
            }
            let tag = self.h.tag();
            let k = F::K::mk(class, tag);
            if model.find(class).is_none() {
                model.push(Ent { class, tag, kid: k.id(), vid: 0, payload: 0 });
            }
            descr.push((class, tag));
            items.push(k);
        }
        let built: Caught<Set<F::K, N>> = fault::catch(|| match which {
            0 => Set::default(),
            1 => {
                let mut it = items.drain(..);
                let arr: [F::K; N] = core::array::from_fn(|_| it.next().expect("N items were prepared"));
                drop(it);
                Set::from(arr)
            }
            _ => items.drain(..).collect(),
        });
        match built {
            Caught::Ok(m) => {
                s.fr.put(m);
                s.model = model;
            }
            Caught::Panic(msg) => {
                self.h.viol("C07", "constructor-panics", format!("{} over {:?} (class, tag) panicked: {}", name, descr, msg));
                self.h.viol("C16", "constructor-panics", format!("{} over {:?} panicked: {}", name, descr, msg));
                s.fr.put(Set::new());
                s.model = Dict::new(N);
                self.h.failed = true;
                return;
            }
            Caught::Injected(..) => unreachable!(),
        }
        self.sweep(s);
        self.wellformed(s, "after construction");
    }

    pub fn run_history<F: Fam, const N: usize>(&mut self, max_steps: usize) {
        ledger::reset();
        self.h.live_base = F::live_objects().unwrap_or(0);
        let mut suts: Vec<Sut<F, N>> = vec![Sut::new()];
        self.sweep(&mut suts[0]);
        if N <= 32 && self.rng.chance(1, 2) {
            if let Caught::Panic(msg) = fault::catch(|| self.construct::<F, N>(&mut suts[0])) {
                let text = format!("observing a freshly constructed set panicked: {}", msg);
                self.h.viol("C07", "unexpected-panic", text.clone());
                if self.cx.prop != "C07" {
                    let p = self.cx.prop.clone();
                    self.h.viol(&p, "unexpected-panic", text);
                }
                for mut s in suts.drain(..) {
                    s.fr.forget();
                }
                let ops = self.h.ops.clone();
                let (hist, fam) = (self.h.hist, F::NAME);
                let mem_prop = crate::common::mem_prop(&self.cx.prop);
                self.cx.rep.absorb_violations(mem_prop, &|| {
                    let mut v = vec![format!("history {} family={} N={}", hist, fam, N)];
                    v.extend(ops.iter().cloned());
                    v
                });
                return;
            }
        }
        if N > 32 {
            let target = N - self.rng.usize_below(9).min(N);
            let mut classes: Vec<u32> = (1..=self.universe).collect();
            self.rng.shuffle(&mut classes);
            ledger::set_ctx(self.h.hist, 0, "prefill");
            for c in classes.into_iter().take(target) {
                let tag = self.h.tag();
                let k = F::K::mk(c, tag);
                let kid = k.id();
                suts[0].fr.get_mut().insert(k);
                suts[0].model.push(Ent { class: c, tag, kid, vid: 0, payload: 0 });
            }
            self.h.ops.push(format!("prefill with {} elements", target));
            self.sweep(&mut suts[0]);
        }
        // capacities beyond 32 / 64 need histories long enough to fill them
        let steps = if N > 256 { self.rng.length(N / 2, N) } else if N > 32 { self.rng.length(3 * N, (5 * N).max(max_steps)) } else { self.rng.length(8, max_steps) };
        let mut escaped = false;
        for _ in 0..steps {
            let during_unwind = !self.light && self.rng.chance(1, 60);
            if during_unwind {
                self.cx.rep.hit("step-during-unwind");
            }
            let stepped = fault::catch(|| {
                if during_unwind {
                    struct OnUnwind<G: FnMut()>(G);
                    impl<G: FnMut()> Drop for OnUnwind<G> {
                        fn drop(&mut self) {
                            (self.0)()
                        }
                    }
                    let _g = OnUnwind(|| self.one_op(&mut suts));
                    panic!("<<unwind-carrier>>");
                } else {
                    self.one_op(&mut suts)
                }
            });
            let stepped = match stepped {
                Caught::Panic(m) if during_unwind && m == "<<unwind-carrier>>" => Caught::Ok(()),
                other => other,
            };
            match stepped {
                Caught::Ok(()) => {}
                Caught::Panic(msg) => {
                    let (_, _, op) = ledger::ctx();
                    let text = format!("`{}` panicked although the reference model says the call returns: {}", op, msg);
                    self.h.viol("C07", "unexpected-panic", text.clone());
                    if self.cx.prop != "C07" {
                        let p = self.cx.prop.clone();
                        self.h.viol(&p, "unexpected-panic", text);
                    }
                    escaped = true;
                }
                Caught::Injected(..) => {
                    self.h.viol("C07", "harness", "an injected fault escaped its operation".into());
                    escaped = true;
                }
            }
            if escaped || self.h.must_stop() {
                break;
            }
        }
        if escaped {
            for mut s in suts.drain(..) {
                s.fr.forget();
            }
        }
        let ops = self.h.ops.clone();
        ledger::set_ctx(self.h.hist, self.h.step + 1, "final-drop");
        let failed = self.h.failed || ledger::viol_total() > 0;
        if failed && !F::TRACKED {
            for mut s in suts.drain(..) {
                s.fr.forget();
            }
        }
        suts.clear();
        if !failed {
            self.conservation::<F>(0, "after the final drop of every container");
        }
        let hist = self.h.hist;
        let fam = F::NAME;
        let profile = self.cfg.profile;
        let mem_prop = crate::common::mem_prop(&self.cx.prop);
        self.cx.rep.absorb_violations(mem_prop, &|| {
            let mut v = vec![format!("set history {} family={} N={} profile={}", hist, fam, N, profile)];
            v.extend(ops.iter().cloned());
            v
        });
        if self.cx.rep.samples.len() < 3 && !self.h.ops.is_empty() {
            let n = self.h.ops.len().min(14);
            self.cx.rep.sample(format!("set hist {} fam={} N={} profile={}: {}{}", hist, fam, N, profile, self.h.ops[..n].join("; "), if self.h.ops.len() > n { "; …" } else { "" }));
        }
    }
}

pub struct StdSet<'a, K>(pub &'a [&'a K]);
impl<K: std::fmt::Debug> std::fmt::Debug for StdSet<'_, K> {
    fn fmt(&self, f: &mut std::fmt::Formatter<'_>) -> std::fmt::Result {
        f.debug_set().entries(self.0.iter()).finish()
    }
}

pub fn required_rows(prop: &str) -> Vec<&'static str> {
    match prop {
        "C07" => vec!["insert", "replace", "remove", "take", "retain", "clear", "drain", "extend"],
        "C02" => vec!["insert", "replace", "remove", "take", "retain", "clear", "drain", "into_iter", "clone", "extend"],
        "C05" => vec!["insert", "replace", "remove", "retain", "extend"],
        "C09" => vec!["set-iter", "adaptor:"],
        "C10" => vec!["drain", "into_iter"],
        "C12" => vec!["insert", "replace", "take", "extend"],
        "C15" => vec!["clone", "drop-copy", "clone_from"],
        "C19" => vec!["fmt:set-debug", "fmt:set-alt-debug", "fmt:set-display"],
        _ => vec![],
    }
}

pub fn history<F: Fam, const N: usize>(cx: &mut Ctx, hist: u64, mut rng: Rng, max_steps: usize) {
    let allow_forget = !cx.args.flag("no-forget");
    let prop = cx.prop.clone();
    let cfg = make_cfg(&prop, &mut rng, allow_forget);
    let mut e = Engine {
        cx,
        h: Hist::new(hist),
        rng,
        cfg,
        universe: if <F::K as KeyF>::norm(7) != 7 { 1 } else { N as u32 + 3 },
        light: false,
        focus: 1,
        quiet: false,
    };
    e.quiet = e.rng.chance(1, 4);
    if e.quiet {
        e.cx.rep.hit("quiet-history");
    }
    e.light = e.cx.args.flag("light");
    e.h.own_prop = e.cx.prop.clone();
    e.h.tag_mod = F::TAG_MOD;
    if e.cx.prop == "C07" {
        // C07 lists drain among its operations: the elements a drain hands back are its return value
        e.h.dual.push(("C10", "drain", "C07"));
    }
    e.run_history::<F, N>(max_steps);
}
