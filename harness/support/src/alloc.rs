//! Counting global allocator (C06).  Per-thread `Cell` counters with `const` initialisers, so
//! the counter itself never allocates.  An engine opts in with
//! `#[global_allocator] static A: support::alloc::Counting = support::alloc::Counting;`

use std::alloc::{GlobalAlloc, Layout, System};
use std::cell::Cell;

thread_local! {
    static CALLS: Cell<u64> = const { Cell::new(0) };
    static BYTES: Cell<u64> = const { Cell::new(0) };
}

pub struct Counting;

#[inline]
fn bump(n: usize) {
    let _ = CALLS.try_with(|c| c.set(c.get() + 1));
    let _ = BYTES.try_with(|c| c.set(c.get() + n as u64));
}

unsafe impl GlobalAlloc for Counting {
    unsafe fn alloc(&self, l: Layout) -> *mut u8 {
        bump(l.size());
        System.alloc(l)
    }
    unsafe fn alloc_zeroed(&self, l: Layout) -> *mut u8 {
        bump(l.size());
        System.alloc_zeroed(l)
    }
    unsafe fn realloc(&self, p: *mut u8, l: Layout, n: usize) -> *mut u8 {
        bump(n);
        System.realloc(p, l, n)
    }
    unsafe fn dealloc(&self, p: *mut u8, l: Layout) {
        bump(0);
        System.dealloc(p, l)
    }
}

/// Number of allocator calls (alloc, alloc_zeroed, realloc, dealloc) made by this thread so far.
#[inline]
pub fn calls() -> u64 {
    CALLS.with(Cell::get)
}
#[inline]
pub fn bytes() -> u64 {
    BYTES.with(Cell::get)
}
