//! Counting global allocator (C06).  Process-wide atomic counters (engines are single-threaded), so
//! the counter itself never allocates.  An engine opts in with
//! `#[global_allocator] static A: support::alloc::Counting = support::alloc::Counting;`

use std::alloc::{GlobalAlloc, Layout, System};
use std::sync::atomic::{AtomicU64, Ordering::Relaxed};

static CALLS: AtomicU64 = AtomicU64::new(0);
static BYTES: AtomicU64 = AtomicU64::new(0);

pub struct Counting;

#[inline]
fn bump(n: usize) {
    CALLS.fetch_add(1, Relaxed);
    BYTES.fetch_add(n as u64, Relaxed);
}

unsafe impl GlobalAlloc for Counting {
    unsafe fn alloc(&self, l: Layout) -> *mut u8 {
        bump(l.size());
        System.alloc(l)
    }
    unsafe fn alloc_zeroed(&self, l: Layout) -> *mut u8 {
        bump(l.size());
        System.alloc_zeroed(l)
    }
    unsafe fn realloc(&self, p: *mut u8, l: Layout, n: usize) -> *mut u8 {
        bump(n);
        System.realloc(p, l, n)
    }
    unsafe fn dealloc(&self, p: *mut u8, l: Layout) {
        bump(0);
        System.dealloc(p, l)
    }
}

/// Number of allocator calls (alloc, alloc_zeroed, realloc, dealloc) made by this thread so far.
#[inline]
pub fn calls() -> u64 {
    CALLS.load(Relaxed)
}
#[inline]
pub fn bytes() -> u64 {
    BYTES.load(Relaxed)
}
