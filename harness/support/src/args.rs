//! Tiny argv parser shared by every engine: `--key value` pairs and bare flags.

use std::collections::BTreeMap;

#[derive(Debug, Clone, Default)]
pub struct Args {
    pub kv: BTreeMap<String, String>,
}

impl Args {
    pub fn parse() -> Self {
        let mut kv = BTreeMap::new();
        let v: Vec<String> = std::env::args().skip(1).collect();
        let mut i = 0;
        while i < v.len() {
            if let Some(k) = v[i].strip_prefix("--") {
                if i + 1 < v.len() && !v[i + 1].starts_with("--") {
                    kv.insert(k.to_string(), v[i + 1].clone());
                    i += 2;
                } else {
                    kv.insert(k.to_string(), "1".to_string());
                    i += 1;
                }
            } else {
                i += 1;
            }
        }
        Args { kv }
    }
    pub fn str(&self, k: &str, d: &str) -> String {
        self.kv.get(k).cloned().unwrap_or_else(|| d.to_string())
    }
    pub fn u64(&self, k: &str, d: u64) -> u64 {
        self.kv.get(k).and_then(|s| s.parse().ok()).unwrap_or(d)
    }
    pub fn usize(&self, k: &str, d: usize) -> usize {
        self.u64(k, d as u64) as usize
    }
    pub fn flag(&self, k: &str) -> bool {
        self.kv.contains_key(k)
    }
    pub fn opt_u64(&self, k: &str) -> Option<u64> {
        self.kv.get(k).and_then(|s| s.parse().ok())
    }
    /// `--shard i/n` → (i, n); default (0, 1)
    pub fn shard(&self) -> (u64, u64) {
        if let Some(s) = self.kv.get("shard") {
            let mut it = s.split('/');
            let i = it.next().and_then(|x| x.parse().ok()).unwrap_or(0);
            let n = it.next().and_then(|x| x.parse().ok()).unwrap_or(1);
            (i, n.max(1))
        } else {
            (0, 1)
        }
    }
    /// comma-separated list of usize
    pub fn list(&self, k: &str, d: &[usize]) -> Vec<usize> {
        match self.kv.get(k) {
            Some(s) => s.split(',').filter_map(|x| x.parse().ok()).collect(),
            None => d.to_vec(),
        }
    }
}
