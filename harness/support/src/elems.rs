//! Instrumented element types.
//!
//! * `TKey<P>` / `TVal<P>`: tracked key / value.  `magic = MAGIC ^ id`; every `new`, `clone`,
//!   `drop`, `eq`, `borrow`, `fmt` reports to the ledger and ticks the fault plan.  No heap
//!   inside, so a garbage object never crashes the process: it fails the magic check instead.
//!   Keys compare by `class` only, so equal keys are distinguishable by `tag` / `id`.
//!   `TKey: Borrow<Class>` is a *distinct borrowed form* that points inside the key.
//!   `P` pads the object (P = 0: 24-byte key/value; large family: 128-byte key, 512-byte value);
//!   the pad carries a pattern derived from the id and is verified on every observation.
//! * the outcome of key comparisons can be driven by an adversary (`adv_*`) for C17.
//! * `Z`: zero-sized key with global create/drop counters; its `eq` answers a per-thread constant.

use crate::fault::{self, Cb};
use crate::ledger::{self, KIND_KEY, KIND_VAL};
use std::borrow::Borrow;
use crate::glob::Global;
use std::cell::Cell;
use std::fmt;

// ---------------------------------------------------------------------------------------------
// adversarial comparison outcomes

#[derive(Clone, Copy, Debug, PartialEq, Eq)]
pub enum EqMode {
    Truthful,
    /// lie with probability p/256 per call
    Random(u8),
    AlwaysTrue,
    AlwaysFalse,
    /// `a == a` (same object) is false, otherwise truthful
    NonReflexive,
    /// truthful only when the left operand is "smaller" (by id / address), else false
    Asymmetric,
    /// alternates truth / lie between consecutive calls
    FlipFlop,
}
pub const EQ_MODES: [EqMode; 8] = [
    EqMode::Truthful,
    EqMode::Random(64),
    EqMode::Random(8),
    EqMode::AlwaysTrue,
    EqMode::AlwaysFalse,
    EqMode::NonReflexive,
    EqMode::Asymmetric,
    EqMode::FlipFlop,
];

struct G<T>(Global<Cell<T>>);
impl<T: Copy> G<T> {
    const fn new(v: T) -> Self {
        G(Global::new(Cell::new(v)))
    }
    #[inline]
    fn with<R>(&self, f: impl FnOnce(&Cell<T>) -> R) -> R {
        self.0.with(|c| f(c))
    }
    #[inline]
    fn try_with<R>(&self, f: impl FnOnce(&Cell<T>) -> R) -> Result<R, ()> {
        Ok(self.with(f))
    }
}
static ADV_MODE: G<EqMode> = G::new(EqMode::Truthful);
static ADV_RNG: G<u64> = G::new(0x1234_5678);
static ADV_FLIP: G<bool> = G::new(false);
static ADV_BORROW_ALT: G<bool> = G::new(false);
static ADV_LIES: G<u64> = G::new(0);
static ADV_CALLS: G<u64> = G::new(0);

pub fn adv_set(mode: EqMode, seed: u64, borrow_alt: bool) {
    ADV_MODE.with(|m| m.set(mode));
    ADV_RNG.with(|r| r.set(seed | 1));
    ADV_FLIP.with(|f| f.set(false));
    ADV_BORROW_ALT.with(|b| b.set(borrow_alt));
}
pub fn adv_reset() {
    adv_set(EqMode::Truthful, 1, false);
}
pub fn adv_stats() -> (u64, u64) {
    (ADV_CALLS.with(Cell::get), ADV_LIES.with(Cell::get))
}
pub fn adv_mode() -> EqMode {
    ADV_MODE.with(Cell::get)
}

#[inline]
fn adv_decide(truth: bool, left: u64, right: u64) -> bool {
    let mode = ADV_MODE.with(Cell::get);
    if mode == EqMode::Truthful {
        return truth;
    }
    ADV_CALLS.with(|c| c.set(c.get() + 1));
    let r = match mode {
        EqMode::Truthful => truth,
        EqMode::Random(p) => {
            let x = ADV_RNG.with(|r| {
                let mut s = r.get();
                s ^= s << 13;
                s ^= s >> 7;
                s ^= s << 17;
                r.set(s);
                s
            });
            if ((x >> 24) & 0xFF) < u64::from(p) {
                !truth
            } else {
                truth
            }
        }
        EqMode::AlwaysTrue => true,
        EqMode::AlwaysFalse => false,
        EqMode::NonReflexive => {
            if left == right {
                false
            } else {
                truth
            }
        }
        EqMode::Asymmetric => {
            if left <= right {
                truth
            } else {
                false
            }
        }
        EqMode::FlipFlop => {
            let f = ADV_FLIP.with(|f| {
                let v = f.get();
                f.set(!v);
                v
            });
            if f {
                !truth
            } else {
                truth
            }
        }
    };
    if r != truth {
        ADV_LIES.with(|c| c.set(c.get() + 1));
    }
    r
}

// ---------------------------------------------------------------------------------------------
// tracked key

/// Borrowed form of a tracked key: just the equivalence class.
#[repr(transparent)]
#[derive(Debug)]
pub struct Class(pub u32);

impl PartialEq for Class {
    fn eq(&self, other: &Self) -> bool {
        fault::tick(Cb::QEq);
        adv_decide(
            self.0 == other.0,
            self as *const _ as u64,
            other as *const _ as u64,
        )
    }
}
impl Eq for Class {}

#[repr(C)]
pub struct TKey<const P: usize> {
    pub id: u64,
    magic: u64,
    pub class: u32,
    pub tag: u32,
    pad: [u8; P],
}
pub type TK = TKey<0>;
pub type LK = TKey<104>;

#[inline]
fn pad_byte(id: u64, i: usize) -> u8 {
    (id as u8).wrapping_mul(31).wrapping_add(i as u8) ^ 0x5C
}

impl<const P: usize> TKey<P> {
    pub fn new(class: u32, tag: u32) -> Self {
        let (id, magic) = ledger::on_new(KIND_KEY, class, tag);
        let mut pad = [0u8; P];
        for (i, b) in pad.iter_mut().enumerate() {
            *b = pad_byte(id, i);
        }
        TKey {
            id,
            magic,
            class,
            tag,
            pad,
        }
    }
    /// The harness looks at a key the API handed out: must be live and intact.
    pub fn check(&self, how: &'static str) -> bool {
        let ok = ledger::observe(self.id, self.magic, how);
        if ok && P > 0 {
            for (i, b) in self.pad.iter().enumerate() {
                if *b != pad_byte(self.id, i) {
                    ledger::violation(
                        "MEM",
                        format!("torn-object@{}", ledger::ctx().2),
                        format!("key id {:#x}: pad byte {} corrupted (partial move or overwrite)", self.id, i),
                    );
                    return false;
                }
            }
        }
        ok
    }
    /// Quiet well-formedness test (no violation recorded).
    pub fn looks_valid(&self) -> bool {
        self.magic == (ledger::MAGIC ^ self.id) && ledger::is_alive(self.id)
    }
}

impl<const P: usize> Drop for TKey<P> {
    fn drop(&mut self) {
        // ledger first: a destructor that panics has still run (the value counts as dropped),
        // so a later second drop of the same slot must be seen as a double drop
        ledger::on_drop(self.id, self.magic, KIND_KEY);
        fault_tick_drop(Cb::KDrop);
    }
}
#[inline]
fn fault_tick_drop(cb: Cb) {
    fault::tick(cb);
}

impl<const P: usize> Clone for TKey<P> {
    fn clone(&self) -> Self {
        fault::tick(Cb::KClone);
        let (id, magic) = ledger::on_clone(self.id, self.magic, KIND_KEY, self.class, self.tag);
        let mut pad = [0u8; P];
        for (i, b) in pad.iter_mut().enumerate() {
            *b = pad_byte(id, i);
        }
        TKey {
            id,
            magic,
            class: self.class,
            tag: self.tag,
            pad,
        }
    }
}

impl<const P: usize> PartialEq for TKey<P> {
    fn eq(&self, other: &Self) -> bool {
        fault::tick(Cb::KEq);
        let a = ledger::observe(self.id, self.magic, "K::eq(lhs)");
        let b = ledger::observe(other.id, other.magic, "K::eq(rhs)");
        ledger::note_eq(self.id, other.id);
        if !(a && b) {
            // garbage operand: answer by raw class; the violation is already recorded
            return self.class == other.class;
        }
        adv_decide(self.class == other.class, self.id, other.id)
    }
}
impl<const P: usize> Eq for TKey<P> {}

impl<const P: usize> Borrow<Class> for TKey<P> {
    fn borrow(&self) -> &Class {
        fault::tick(Cb::Borrow);
        ledger::observe(self.id, self.magic, "K::borrow");
        ledger::note_borrow(self.id);
        let field: &u32 = if ADV_BORROW_ALT.with(Cell::get) {
            &self.tag
        } else {
            &self.class
        };
        // SAFETY: Class is repr(transparent) over u32
        unsafe { &*(field as *const u32).cast::<Class>() }
    }
}

impl<const P: usize> fmt::Debug for TKey<P> {
    fn fmt(&self, f: &mut fmt::Formatter<'_>) -> fmt::Result {
        fault::tick(Cb::Fmt);
        ledger::observe(self.id, self.magic, "K::fmt");
        ledger::note_fmt(self.id);
        write!(f, "K{}#{}", self.class, self.tag)
    }
}
impl<const P: usize> fmt::Display for TKey<P> {
    fn fmt(&self, f: &mut fmt::Formatter<'_>) -> fmt::Result {
        fault::tick(Cb::Fmt);
        ledger::observe(self.id, self.magic, "K::fmt");
        ledger::note_fmt(self.id);
        write!(f, "k{}.{}", self.class, self.tag)
    }
}

// ---------------------------------------------------------------------------------------------
// tracked value

#[repr(C)]
pub struct TVal<const P: usize> {
    pub id: u64,
    magic: u64,
    pub payload: u32,
    _r: u32,
    pad: [u8; P],
}
pub type TV = TVal<0>;
pub type LV = TVal<488>;

pub const DEFAULT_PAYLOAD: u32 = 0x00D0_D0D0;

impl<const P: usize> TVal<P> {
    pub fn new(payload: u32) -> Self {
        let (id, magic) = ledger::on_new(KIND_VAL, payload, 0);
        let mut pad = [0u8; P];
        for (i, b) in pad.iter_mut().enumerate() {
            *b = pad_byte(id, i);
        }
        TVal {
            id,
            magic,
            payload,
            _r: 0,
            pad,
        }
    }
    pub fn check(&self, how: &'static str) -> bool {
        let ok = ledger::observe(self.id, self.magic, how);
        if ok && P > 0 {
            for (i, b) in self.pad.iter().enumerate() {
                if *b != pad_byte(self.id, i) {
                    ledger::violation(
                        "MEM",
                        format!("torn-object@{}", ledger::ctx().2),
                        format!("value id {:#x}: pad byte {} corrupted", self.id, i),
                    );
                    return false;
                }
            }
        }
        ok
    }
    pub fn looks_valid(&self) -> bool {
        self.magic == (ledger::MAGIC ^ self.id) && ledger::is_alive(self.id)
    }
}
impl<const P: usize> Drop for TVal<P> {
    fn drop(&mut self) {
        ledger::on_drop(self.id, self.magic, KIND_VAL);
        fault_tick_drop(Cb::VDrop);
    }
}
impl<const P: usize> Clone for TVal<P> {
    fn clone(&self) -> Self {
        fault::tick(Cb::VClone);
        let (id, magic) = ledger::on_clone(self.id, self.magic, KIND_VAL, self.payload, 0);
        let mut pad = [0u8; P];
        for (i, b) in pad.iter_mut().enumerate() {
            *b = pad_byte(id, i);
        }
        TVal {
            id,
            magic,
            payload: self.payload,
            _r: 0,
            pad,
        }
    }
}
impl<const P: usize> PartialEq for TVal<P> {
    fn eq(&self, other: &Self) -> bool {
        fault::tick(Cb::VEq);
        ledger::observe(self.id, self.magic, "V::eq(lhs)");
        ledger::observe(other.id, other.magic, "V::eq(rhs)");
        self.payload == other.payload
    }
}
impl<const P: usize> Eq for TVal<P> {}
static TV_DEFAULTS: G<u64> = G::new(0);
/// number of `TVal::default()` calls so far
pub fn tv_default_calls() -> u64 {
    TV_DEFAULTS.with(Cell::get)
}
impl<const P: usize> Default for TVal<P> {
    fn default() -> Self {
        fault::tick(Cb::VDefault);
        TV_DEFAULTS.with(|c| c.set(c.get() + 1));
        Self::new(DEFAULT_PAYLOAD)
    }
}
impl<const P: usize> fmt::Debug for TVal<P> {
    fn fmt(&self, f: &mut fmt::Formatter<'_>) -> fmt::Result {
        fault::tick(Cb::Fmt);
        ledger::observe(self.id, self.magic, "V::fmt");
        ledger::note_fmt(self.id);
        write!(f, "V{}", self.payload)
    }
}
impl<const P: usize> fmt::Display for TVal<P> {
    fn fmt(&self, f: &mut fmt::Formatter<'_>) -> fmt::Result {
        fault::tick(Cb::Fmt);
        ledger::observe(self.id, self.magic, "V::fmt");
        ledger::note_fmt(self.id);
        write!(f, "v{}", self.payload)
    }
}

// ---------------------------------------------------------------------------------------------
// zero-sized key

static Z_NEW: G<u64> = G::new(0);
static Z_DROP: G<u64> = G::new(0);
static Z_EQ_ANSWER: G<bool> = G::new(true);
/// Zero-sized key.  `Z == Z` answers the per-thread constant set by `z_set_eq` (default
/// true: all equal, so a container holds at most one; false: all different, so every insert
/// appends and capacity is enforced purely by `N`).
pub struct Z(());
impl Z {
    pub fn new() -> Self {
        Z_NEW.with(|c| c.set(c.get() + 1));
        Z(())
    }
}
impl Default for Z {
    fn default() -> Self {
        Z::new()
    }
}
impl Drop for Z {
    fn drop(&mut self) {
        let _ = Z_DROP.try_with(|c| c.set(c.get() + 1));
    }
}
impl Clone for Z {
    fn clone(&self) -> Self {
        Z::new()
    }
}
impl PartialEq for Z {
    fn eq(&self, _: &Self) -> bool {
        Z_EQ_ANSWER.with(Cell::get)
    }
}
impl Eq for Z {}
impl fmt::Debug for Z {
    fn fmt(&self, f: &mut fmt::Formatter<'_>) -> fmt::Result {
        f.write_str("Z")
    }
}
impl fmt::Display for Z {
    fn fmt(&self, f: &mut fmt::Formatter<'_>) -> fmt::Result {
        f.write_str("z")
    }
}
pub fn z_set_eq(answer: bool) {
    Z_EQ_ANSWER.with(|c| c.set(answer));
}
/// (created, dropped)
pub fn z_counts() -> (u64, u64) {
    (Z_NEW.with(Cell::get), Z_DROP.with(Cell::get))
}
pub fn z_live() -> i64 {
    let (n, d) = z_counts();
    n as i64 - d as i64
}

// ---------------------------------------------------------------------------------------------
// heap-owning key / value with fault ticks but WITHOUT ledger or magic guards: a double drop,
// a drop of an uninitialised slot or a read of a dead slot is a real double free / wild free /
// use-after-free, which is what AddressSanitizer, valgrind and Miri are there to see.

pub struct HKey {
    pub class: u32,
    pub tag: u32,
    heap: Box<u64>,
}
impl HKey {
    pub fn new(class: u32, tag: u32) -> Self {
        HKey { class, tag, heap: Box::new(u64::from(class) << 32 | u64::from(tag)) }
    }
    pub fn intact(&self) -> bool {
        *self.heap == u64::from(self.class) << 32 | u64::from(self.tag)
    }
}
impl Drop for HKey {
    fn drop(&mut self) {
        fault::tick(Cb::KDrop);
    }
}
impl Clone for HKey {
    fn clone(&self) -> Self {
        fault::tick(Cb::KClone);
        HKey { class: self.class, tag: self.tag, heap: Box::new(*self.heap) }
    }
}
impl PartialEq for HKey {
    fn eq(&self, other: &Self) -> bool {
        fault::tick(Cb::KEq);
        // touch the heap block of both operands: a dead operand is a use-after-free
        let t = (*self.heap >> 32) as u32 == (*other.heap >> 32) as u32;
        adv_decide(t, self as *const _ as u64, other as *const _ as u64)
    }
}
impl Eq for HKey {}
impl Borrow<Class> for HKey {
    fn borrow(&self) -> &Class {
        fault::tick(Cb::Borrow);
        let _ = std::hint::black_box(*self.heap);
        // SAFETY: Class is repr(transparent) over u32
        unsafe { &*(&self.class as *const u32).cast::<Class>() }
    }
}
impl fmt::Debug for HKey {
    fn fmt(&self, f: &mut fmt::Formatter<'_>) -> fmt::Result {
        fault::tick(Cb::Fmt);
        write!(f, "K{}#{}", (*self.heap >> 32) as u32, self.tag)
    }
}
impl fmt::Display for HKey {
    fn fmt(&self, f: &mut fmt::Formatter<'_>) -> fmt::Result {
        fault::tick(Cb::Fmt);
        write!(f, "k{}.{}", (*self.heap >> 32) as u32, self.tag)
    }
}

pub struct HVal {
    pub payload: u32,
    heap: Vec<u32>,
}
impl HVal {
    pub fn new(payload: u32) -> Self {
        HVal { payload, heap: vec![payload; 3] }
    }
    pub fn intact(&self) -> bool {
        self.heap.len() == 3 && self.heap.iter().all(|x| *x == self.payload)
    }
    pub fn set(&mut self, p: u32) {
        self.payload = p;
        for x in &mut self.heap {
            *x = p;
        }
    }
}
impl Drop for HVal {
    fn drop(&mut self) {
        fault::tick(Cb::VDrop);
    }
}
impl Clone for HVal {
    fn clone(&self) -> Self {
        fault::tick(Cb::VClone);
        HVal { payload: self.payload, heap: self.heap.clone() }
    }
}
impl PartialEq for HVal {
    fn eq(&self, other: &Self) -> bool {
        fault::tick(Cb::VEq);
        self.heap == other.heap
    }
}
impl Eq for HVal {}
impl Default for HVal {
    fn default() -> Self {
        fault::tick(Cb::VDefault);
        HVal::new(DEFAULT_PAYLOAD)
    }
}
impl fmt::Debug for HVal {
    fn fmt(&self, f: &mut fmt::Formatter<'_>) -> fmt::Result {
        fault::tick(Cb::Fmt);
        write!(f, "V{}", self.heap[0])
    }
}
impl fmt::Display for HVal {
    fn fmt(&self, f: &mut fmt::Formatter<'_>) -> fmt::Result {
        fault::tick(Cb::Fmt);
        write!(f, "v{}", self.heap[0])
    }
}

// ---------------------------------------------------------------------------------------------
// key / value WITHOUT drop glue but with an observable Clone: every `clone()` is counted and
// stamps a fresh serial number into the copy, so a container that duplicates such elements
// bit-for-bit instead of calling `Clone::clone` is found out.

static ND_SERIAL: G<u64> = G::new(1);
static ND_KCLONES: G<u64> = G::new(0);
static ND_VCLONES: G<u64> = G::new(0);
fn nd_next() -> u64 {
    ND_SERIAL.with(|c| {
        let v = c.get();
        c.set(v + 1);
        v
    })
}
/// (key clones, value clones) so far
pub fn nd_clone_counts() -> (u64, u64) {
    (ND_KCLONES.with(Cell::get), ND_VCLONES.with(Cell::get))
}

pub struct NdKey {
    pub class: u32,
    pub tag: u32,
    pub serial: u64,
}
impl NdKey {
    pub fn new(class: u32, tag: u32) -> Self {
        NdKey { class, tag, serial: nd_next() }
    }
}
impl Clone for NdKey {
    fn clone(&self) -> Self {
        fault::tick(Cb::KClone);
        ND_KCLONES.with(|c| c.set(c.get() + 1));
        NdKey { class: self.class, tag: self.tag, serial: nd_next() }
    }
}
impl PartialEq for NdKey {
    fn eq(&self, o: &Self) -> bool {
        fault::tick(Cb::KEq);
        self.class == o.class
    }
}
impl Eq for NdKey {}
impl Borrow<Class> for NdKey {
    fn borrow(&self) -> &Class {
        // SAFETY: Class is repr(transparent) over u32
        unsafe { &*(&self.class as *const u32).cast::<Class>() }
    }
}
impl fmt::Debug for NdKey {
    fn fmt(&self, f: &mut fmt::Formatter<'_>) -> fmt::Result {
        write!(f, "K{}#{}", self.class, self.tag)
    }
}
impl fmt::Display for NdKey {
    fn fmt(&self, f: &mut fmt::Formatter<'_>) -> fmt::Result {
        write!(f, "k{}.{}", self.class, self.tag)
    }
}

#[derive(Default)]
pub struct NdVal {
    pub payload: u32,
    pub serial: u64,
}
impl NdVal {
    pub fn new(payload: u32) -> Self {
        NdVal { payload, serial: nd_next() }
    }
}
impl Clone for NdVal {
    fn clone(&self) -> Self {
        fault::tick(Cb::VClone);
        ND_VCLONES.with(|c| c.set(c.get() + 1));
        NdVal { payload: self.payload, serial: nd_next() }
    }
}
impl PartialEq for NdVal {
    fn eq(&self, o: &Self) -> bool {
        self.payload == o.payload
    }
}
impl fmt::Debug for NdVal {
    fn fmt(&self, f: &mut fmt::Formatter<'_>) -> fmt::Result {
        write!(f, "V{}", self.payload)
    }
}
impl fmt::Display for NdVal {
    fn fmt(&self, f: &mut fmt::Formatter<'_>) -> fmt::Result {
        write!(f, "v{}", self.payload)
    }
}

// ---------------------------------------------------------------------------------------------
// unusual layouts, all without drop glue and without a ledger (identity = class / tag packed into the bits):
// a container must treat its elements through `==`, `Clone` and moves only, whatever their size and alignment.

/// One-byte key with its own `==`: class = low 5 bits, tag = high 3 bits.  Bitwise comparison of the byte
/// is NOT its equality.
#[derive(Clone, Copy)]
#[repr(transparent)]
pub struct Tiny(pub u8);
impl Tiny {
    pub fn new(class: u32, tag: u32) -> Self {
        Tiny(((class & 31) | ((tag & 7) << 5)) as u8)
    }
    pub fn class(&self) -> u32 {
        u32::from(self.0 & 31)
    }
    pub fn tag(&self) -> u32 {
        u32::from(self.0 >> 5)
    }
}
impl PartialEq for Tiny {
    fn eq(&self, o: &Self) -> bool {
        self.0 & 31 == o.0 & 31
    }
}
impl Eq for Tiny {}
impl fmt::Debug for Tiny {
    fn fmt(&self, f: &mut fmt::Formatter<'_>) -> fmt::Result {
        write!(f, "T{}#{}", self.class(), self.tag())
    }
}
impl fmt::Display for Tiny {
    fn fmt(&self, f: &mut fmt::Formatter<'_>) -> fmt::Result {
        write!(f, "t{}.{}", self.class(), self.tag())
    }
}

/// Four-byte key with its own `==`: class = low 16 bits, tag = high 16 bits.
#[derive(Clone, Copy)]
#[repr(transparent)]
pub struct Word(pub u32);
/// Borrowed form of `Word`: the same four bytes, compared by the low 16 bits.
#[repr(transparent)]
#[derive(Debug)]
pub struct WClass(pub u32);
impl Word {
    pub fn new(class: u32, tag: u32) -> Self {
        Word((class & 0xFFFF) | ((tag & 0xFFFF) << 16))
    }
    pub fn class(&self) -> u32 {
        self.0 & 0xFFFF
    }
    pub fn tag(&self) -> u32 {
        self.0 >> 16
    }
}
impl PartialEq for Word {
    fn eq(&self, o: &Self) -> bool {
        self.0 & 0xFFFF == o.0 & 0xFFFF
    }
}
impl Eq for Word {}
impl PartialEq for WClass {
    fn eq(&self, o: &Self) -> bool {
        self.0 & 0xFFFF == o.0 & 0xFFFF
    }
}
impl Eq for WClass {}
impl Borrow<WClass> for Word {
    fn borrow(&self) -> &WClass {
        // SAFETY: both are repr(transparent) over u32
        unsafe { &*(self as *const Word).cast::<WClass>() }
    }
}
impl fmt::Debug for Word {
    fn fmt(&self, f: &mut fmt::Formatter<'_>) -> fmt::Result {
        write!(f, "W{}#{}", self.class(), self.tag())
    }
}
impl fmt::Display for Word {
    fn fmt(&self, f: &mut fmt::Formatter<'_>) -> fmt::Result {
        write!(f, "w{}.{}", self.class(), self.tag())
    }
}

/// Value with a niche: `Option<NzVal>` is as large as `NzVal`, and the all-zero bit pattern is a valid value
/// (`None` inside), unlike for references or boxes.
#[derive(Clone, Copy, PartialEq, Eq, Default)]
pub struct NzVal(Option<std::num::NonZeroU32>);
impl NzVal {
    pub fn new(p: u32) -> Self {
        NzVal(std::num::NonZeroU32::new(p))
    }
    pub fn get(&self) -> u32 {
        self.0.map_or(0, std::num::NonZeroU32::get)
    }
}
impl fmt::Debug for NzVal {
    fn fmt(&self, f: &mut fmt::Formatter<'_>) -> fmt::Result {
        write!(f, "N{}", self.get())
    }
}
impl fmt::Display for NzVal {
    fn fmt(&self, f: &mut fmt::Formatter<'_>) -> fmt::Result {
        write!(f, "n{}", self.get())
    }
}

/// Over-aligned key (64 bytes) …
#[derive(Clone, Copy)]
#[repr(C, align(64))]
pub struct AKey {
    pub class: u32,
    pub tag: u32,
}
impl PartialEq for AKey {
    fn eq(&self, o: &Self) -> bool {
        self.class == o.class
    }
}
impl Eq for AKey {}
impl Borrow<Class> for AKey {
    fn borrow(&self) -> &Class {
        // SAFETY: Class is repr(transparent) over u32
        unsafe { &*(&self.class as *const u32).cast::<Class>() }
    }
}
impl fmt::Debug for AKey {
    fn fmt(&self, f: &mut fmt::Formatter<'_>) -> fmt::Result {
        write!(f, "A{}#{}", self.class, self.tag)
    }
}
impl fmt::Display for AKey {
    fn fmt(&self, f: &mut fmt::Formatter<'_>) -> fmt::Result {
        write!(f, "a{}.{}", self.class, self.tag)
    }
}
/// … and over-aligned value (32 bytes): a pair is 128 bytes of which 12 carry data.
#[derive(Clone, Copy, PartialEq, Eq, Default)]
#[repr(C, align(32))]
pub struct AVal(pub u32);
impl fmt::Debug for AVal {
    fn fmt(&self, f: &mut fmt::Formatter<'_>) -> fmt::Result {
        write!(f, "AV{}", self.0)
    }
}
impl fmt::Display for AVal {
    fn fmt(&self, f: &mut fmt::Formatter<'_>) -> fmt::Result {
        write!(f, "av{}", self.0)
    }
}

/// Three-byte key (alignment 1): byte 0 = class, byte 1 = tag, byte 2 = check byte.  With the six-byte value
/// below a pair is 9 bytes, a set element 3 bytes: sizes that divide no power of two.
#[derive(Clone, Copy)]
pub struct Odd3(pub [u8; 3]);
impl Odd3 {
    pub fn new(class: u32, tag: u32) -> Self {
        let (c, t) = (class as u8, tag as u8);
        Odd3([c, t, c ^ t ^ 0x5A])
    }
    pub fn class(&self) -> u32 {
        u32::from(self.0[0])
    }
    pub fn tag(&self) -> u32 {
        u32::from(self.0[1])
    }
    pub fn intact(&self) -> bool {
        self.0[2] == self.0[0] ^ self.0[1] ^ 0x5A
    }
}
impl PartialEq for Odd3 {
    fn eq(&self, o: &Self) -> bool {
        self.0[0] == o.0[0]
    }
}
impl Eq for Odd3 {}
impl fmt::Debug for Odd3 {
    fn fmt(&self, f: &mut fmt::Formatter<'_>) -> fmt::Result {
        write!(f, "O{}#{}", self.class(), self.tag())
    }
}
impl fmt::Display for Odd3 {
    fn fmt(&self, f: &mut fmt::Formatter<'_>) -> fmt::Result {
        write!(f, "o{}.{}", self.class(), self.tag())
    }
}
/// Six-byte value (alignment 1): payload in little-endian bytes 0..4, two check bytes.
#[derive(Clone, Copy, PartialEq, Eq)]
pub struct Odd6(pub [u8; 6]);
impl Odd6 {
    pub fn new(p: u32) -> Self {
        let b = p.to_le_bytes();
        Odd6([b[0], b[1], b[2], b[3], b[0] ^ b[2] ^ 0xA5, b[1] ^ b[3] ^ 0x3C])
    }
    pub fn get(&self) -> u32 {
        u32::from_le_bytes([self.0[0], self.0[1], self.0[2], self.0[3]])
    }
    pub fn intact(&self) -> bool {
        self.0[4] == self.0[0] ^ self.0[2] ^ 0xA5 && self.0[5] == self.0[1] ^ self.0[3] ^ 0x3C
    }
}
impl Default for Odd6 {
    fn default() -> Self {
        Odd6::new(0)
    }
}
impl fmt::Debug for Odd6 {
    fn fmt(&self, f: &mut fmt::Formatter<'_>) -> fmt::Result {
        write!(f, "OV{}", self.get())
    }
}
impl fmt::Display for Odd6 {
    fn fmt(&self, f: &mut fmt::Formatter<'_>) -> fmt::Result {
        write!(f, "ov{}", self.get())
    }
}

/// Twelve-byte key (not a multiple of the word size): class, a constant, and the identity tag in the TRAILING
/// four bytes; `==` looks at the class only.
#[derive(Clone, Copy)]
#[repr(C)]
pub struct K12 {
    pub class: u32,
    pub fill: u32,
    pub tag: u32,
}
impl K12 {
    pub fn new(class: u32, tag: u32) -> Self {
        K12 { class, fill: 0x1234_5678, tag }
    }
}
impl PartialEq for K12 {
    fn eq(&self, o: &Self) -> bool {
        self.class == o.class
    }
}
impl Eq for K12 {}
impl Borrow<Class> for K12 {
    fn borrow(&self) -> &Class {
        // SAFETY: Class is repr(transparent) over u32
        unsafe { &*(&self.class as *const u32).cast::<Class>() }
    }
}
impl fmt::Debug for K12 {
    fn fmt(&self, f: &mut fmt::Formatter<'_>) -> fmt::Result {
        write!(f, "D{}#{}", self.class, self.tag)
    }
}
impl fmt::Display for K12 {
    fn fmt(&self, f: &mut fmt::Formatter<'_>) -> fmt::Result {
        write!(f, "d{}.{}", self.class, self.tag)
    }
}
