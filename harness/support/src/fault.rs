//! Fault injection at user callbacks: a per-thread callback counter with a single-shot
//! injected panic, and the process-wide panic hook.
//!
//! Every instrumented callback (key/value `eq`, `borrow`, `clone`, `drop`, `default`, closures,
//! source-iterator `next`) calls `tick(kind)` first.  When a plan is armed at tick `k`, the k-th
//! callback panics (payload `Injected`), the plan disarms itself, and no further callback
//! panics: exactly one injected panic per run, never a double panic.  `Drop` callbacks only
//! tick when the thread is not already unwinding.

use crate::glob::Global;

#[derive(Clone, Copy, PartialEq, Eq, Debug, Hash)]
#[repr(u8)]
pub enum Cb {
    KEq = 0,
    QEq,
    Borrow,
    KClone,
    VClone,
    KDrop,
    VDrop,
    VDefault,
    VEq,
    Closure,
    SrcNext,
    Fmt,
}
pub const CB_NAMES: [&str; 12] = [
    "K::eq", "Q::eq", "borrow", "K::clone", "V::clone", "K::drop", "V::drop", "V::default",
    "V::eq", "closure", "source.next", "fmt",
];
impl Cb {
    pub fn name(self) -> &'static str {
        CB_NAMES[self as usize]
    }
}

/// Panic payload of an injected fault.
#[derive(Debug, Clone, Copy)]
pub struct Injected(pub Cb, pub u64);

struct Plan {
    enabled: bool,
    count: u64,
    arm: Option<u64>,
    fired: Option<(Cb, u64)>,
    recording: bool,
    trace: Vec<Cb>,
}

static P: Global<Plan> = Global::new(Plan { enabled: false, count: 0, arm: None, fired: None, recording: false, trace: Vec::new() });
static LAST_PANIC: Global<(u64, String)> = Global::new((0, String::new()));
static CATCH_DEPTH: Global<u32> = Global::new(0);

#[inline]
pub fn tick(cb: Cb) {
    let fire = P
        .with(|p| {
            if !p.enabled {
                return None;
            }
            let is_drop = matches!(cb, Cb::KDrop | Cb::VDrop);
            if is_drop && std::thread::panicking() {
                return None;
            }
            p.count += 1;
            if p.recording {
                p.trace.push(cb);
            }
            if p.arm == Some(p.count) {
                p.arm = None;
                let c = p.count;
                p.fired = Some((cb, c));
                return Some(c);
            }
            None
        });
    if let Some(c) = fire {
        std::panic::panic_any(Injected(cb, c));
    }
}

/// Start counting callbacks; optionally record their kinds; optionally arm a fault at tick k.
pub fn begin(record: bool, arm_at: Option<u64>) {
    P.with(|p| {
        p.enabled = true;
        p.count = 0;
        p.arm = arm_at;
        p.fired = None;
        p.recording = record;
        p.trace.clear();
    });
}
/// Stop counting. Returns (ticks seen, fired (kind, tick) if the fault fired, recorded trace).
pub fn end() -> (u64, Option<(Cb, u64)>, Vec<Cb>) {
    P.with(|p| {
        p.enabled = false;
        p.arm = None;
        p.recording = false;
        (p.count, p.fired.take(), std::mem::take(&mut p.trace))
    })
}
/// Disarm without stopping the counter (used right after catching the injected panic).
pub fn disarm() {
    P.with(|p| {
        p.arm = None;
    });
}
/// Suspend / resume fault delivery and tick counting (the harness's own handling of elements
/// must never be the place where an armed fault fires).
pub fn pause() {
    P.with(|p| p.enabled = false);
}
pub fn resume() {
    P.with(|p| {
        if p.arm.is_some() {
            p.enabled = true;
        }
    });
}
/// Arm a single-shot fault `k` ticks from now, delivered only between `resume()` and `pause()`.
pub fn arm_paused(k: u64) {
    P.with(|p| {
        p.enabled = false;
        p.count = 0;
        p.arm = Some(k.max(1));
        p.fired = None;
        p.recording = false;
        p.trace.clear();
    });
}
/// Run `f` (a call into the code under test) with fault delivery on.
pub fn catch_live<R>(f: impl FnOnce() -> R) -> Caught<R> {
    resume();
    let r = catch(f);
    pause();
    r
}
pub fn ticks() -> u64 {
    P.with(|p| p.count)
}

/// Install the process-wide panic hook: silent, but it remembers message and location of
/// every panic that was not injected, so an unexpected panic or an abort can be explained.
pub fn install_hook() {
    let verbose = std::env::var_os("VERIF_PANIC_VERBOSE").is_some();
    std::panic::set_hook(Box::new(move |info| {
        if info.payload().downcast_ref::<Injected>().is_some() {
            return;
        }
        let msg = if let Some(s) = info.payload().downcast_ref::<&str>() {
            (*s).to_string()
        } else if let Some(s) = info.payload().downcast_ref::<String>() {
            s.clone()
        } else {
            "<non-string payload>".to_string()
        };
        let loc = info
            .location()
            .map(|l| format!("{}:{}", l.file(), l.line()))
            .unwrap_or_default();
        let uncaught = CATCH_DEPTH.with(|d| *d == 0);
        if verbose || uncaught || msg.contains("unsafe precondition") || msg.contains("cannot unwind") {
            // std's ub_checks raise a non-unwinding panic that aborts the process: say why on
            // stderr so the orchestrator can attach it to the replay file.
            eprintln!("PANIC-REPORT: {} at {}", msg, loc);
        }
        let text = format!("{} at {}", msg, loc);
        LAST_PANIC.with(|c| {
            c.0 += 1;
            c.1 = text;
        });
    }));
}
pub fn last_panic() -> (u64, String) {
    LAST_PANIC.with(|c| c.clone())
}

/// Outcome of running a closure under catch_unwind.
pub enum Caught<R> {
    Ok(R),
    /// an injected fault
    Injected(Cb, u64),
    /// any other panic (raised by the code under test or by std)
    Panic(String),
}
impl<R> Caught<R> {
    pub fn panicked(&self) -> bool {
        !matches!(self, Caught::Ok(_))
    }
}

pub fn catch<R>(f: impl FnOnce() -> R) -> Caught<R> {
    CATCH_DEPTH.with(|d| *d += 1);
    let r = std::panic::catch_unwind(std::panic::AssertUnwindSafe(f));
    CATCH_DEPTH.with(|d| *d = d.saturating_sub(1));
    match r {
        Ok(r) => Caught::Ok(r),
        Err(p) => {
            if let Some(i) = p.downcast_ref::<Injected>() {
                Caught::Injected(i.0, i.1)
            } else if let Some(s) = p.downcast_ref::<&str>() {
                Caught::Panic((*s).to_string())
            } else if let Some(s) = p.downcast_ref::<String>() {
                Caught::Panic(s.clone())
            } else {
                Caught::Panic("<non-string payload>".into())
            }
        }
    }
}
