//! Placement frames: the container under test lives between two canary arrays in memory that
//! was pre-filled with 0xA5, so (a) a write outside the container is visible as canary damage
//! and (b) a read of a never-written slot yields an object that fails the ledger's magic check.

use std::mem::MaybeUninit;

pub const CANARY_WORDS: usize = 16;
pub const POISON: u8 = 0xA5;
const CANARY: u64 = 0xC0DE_CAFE_DEAD_BEA7;

#[repr(C)]
pub struct Frame<C> {
    pre: [u64; CANARY_WORDS],
    slot: MaybeUninit<C>,
    post: [u64; CANARY_WORDS],
    live: bool,
}

impl<C> Frame<C> {
    /// Allocate a frame on the heap (so it never moves), poison it, and move `c` in.
    pub fn boxed(c: C) -> Box<Self> {
        let mut b: Box<MaybeUninit<Self>> = Box::new(MaybeUninit::uninit());
        unsafe {
            // Under Miri the bytes stay uninitialised: Miri then reports a read of a
            // never-written slot precisely, which the poison pattern would hide from it.
            if !cfg!(miri) {
                std::ptr::write_bytes(b.as_mut_ptr().cast::<u8>(), POISON, std::mem::size_of::<Self>());
            }
            let p = b.as_mut_ptr();
            std::ptr::addr_of_mut!((*p).pre).write([CANARY; CANARY_WORDS]);
            std::ptr::addr_of_mut!((*p).post).write([CANARY; CANARY_WORDS]);
            std::ptr::addr_of_mut!((*p).live).write(true);
            std::ptr::addr_of_mut!((*p).slot).cast::<C>().write(c);
            Box::from_raw(Box::into_raw(b).cast::<Self>())
        }
    }
    #[inline]
    pub fn get(&self) -> &C {
        debug_assert!(self.live);
        unsafe { self.slot.assume_init_ref() }
    }
    #[inline]
    pub fn get_mut(&mut self) -> &mut C {
        debug_assert!(self.live);
        unsafe { self.slot.assume_init_mut() }
    }
    /// Move the container out (e.g. to consume it with `into_iter`).
    pub fn take(&mut self) -> C {
        assert!(self.live);
        self.live = false;
        unsafe { self.slot.assume_init_read() }
    }
    /// Put a container (back) into an empty frame.
    pub fn put(&mut self, c: C) {
        assert!(!self.live);
        self.slot.write(c);
        self.live = true;
    }
    pub fn is_live(&self) -> bool {
        self.live
    }
    pub fn canaries_ok(&self) -> bool {
        self.pre.iter().all(|w| *w == CANARY) && self.post.iter().all(|w| *w == CANARY)
    }
    /// Address range [lo, hi) of the container value itself.
    pub fn range(&self) -> (usize, usize) {
        let lo = self.slot.as_ptr() as usize;
        (lo, lo + std::mem::size_of::<C>())
    }
    /// Is `p..p+len` inside the container's own bytes? (zero-sized referents: p in [lo, hi])
    pub fn contains(&self, p: usize, len: usize) -> bool {
        let (lo, hi) = self.range();
        p >= lo && p + len <= hi
    }
    /// Forget the container without running its destructor.
    pub fn forget(&mut self) {
        self.live = false;
    }
}

impl<C> Drop for Frame<C> {
    fn drop(&mut self) {
        if self.live {
            unsafe { self.slot.assume_init_drop() };
            self.live = false;
        }
    }
}

/// Exact-size heap placement for red-zone tools (ASan, valgrind): the container is alone in
/// a heap block of exactly `size_of::<C>()` bytes, and the pointer goes through `black_box`
/// so the allocation cannot be elided.
pub fn exact_box<C>(c: C) -> Box<C> {
    std::hint::black_box(Box::new(c))
}

pub fn addr_of<T: ?Sized>(r: &T) -> usize {
    (r as *const T).cast::<u8>() as usize
}
