//! Process-global monitor state without thread-local / RefCell overhead.
//!
//! Every engine is a single-threaded process, so "the monitor's state is updated atomically
//! with the state it shadows" holds trivially and a plain global is sound.  This matters under
//! Miri, where one `thread_local!` + `RefCell` access costs about half a millisecond and the
//! ledger is consulted dozens of times per monitored step.
//!
//! Contract: `with` must not be re-entered for the same global (no monitor calls user code
//! while holding its state).  Miri's borrow checker watches the harness as well, so a breach
//! would show up as a Stacked-Borrows error in the harness, not as a silent wrong verdict.

use std::cell::UnsafeCell;

pub struct Global<T>(UnsafeCell<T>);
// SAFETY: engines never spawn threads (see module docs).
unsafe impl<T> Sync for Global<T> {}

impl<T> Global<T> {
    pub const fn new(v: T) -> Self {
        Global(UnsafeCell::new(v))
    }
    #[inline]
    pub fn with<R>(&self, f: impl FnOnce(&mut T) -> R) -> R {
        // SAFETY: single-threaded, not re-entered.
        unsafe { f(&mut *self.0.get()) }
    }
}
