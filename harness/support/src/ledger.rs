//! Ownership ledger: a conservation / exactly-once monitor for instrumented elements, plus the
//! violation log shared by every monitor.
//!
//! Monitors never `panic!`: they run inside `Drop` and during unwinding, where a second panic
//! would abort the process.  They append to the violation log instead.

use crate::glob::Global;

pub const MAGIC: u64 = 0x5EED_C0DE_F00D_BEEF;

pub const KIND_KEY: u8 = 1;
pub const KIND_VAL: u8 = 2;
pub const KIND_OTHER: u8 = 3;

#[derive(Clone, Debug)]
pub struct Obj {
    pub alive: bool,
    pub drops: u16,
    pub kind: u8,
    pub a: u32,
    pub b: u32,
    /// id this object was cloned from (0 = created by `new`/`default`)
    pub parent: u64,
    pub clones_made: u32,
}

#[derive(Clone, Debug, PartialEq, Eq)]
pub enum Ev {
    New { id: u64, kind: u8 },
    Clone { from: u64, to: u64, kind: u8 },
    Drop { id: u64, kind: u8 },
    Eq { a: u64, b: u64 },
    Borrow { id: u64 },
    Fmt { id: u64 },
}

#[derive(Clone, Debug)]
pub struct Viol {
    /// "MEM" for ledger-raised memory/ownership violations (the engine maps them to the
    /// property it is deciding), otherwise a property id such as "C01".
    pub prop: String,
    /// stable signature, used for known-findings matching
    pub sig: String,
    pub msg: String,
    pub hist: u64,
    pub step: u32,
    pub op: &'static str,
}

#[derive(Clone, Debug, Default)]
pub struct Counts {
    pub news: u64,
    pub clones: u64,
    pub drops: u64,
    pub eqs: u64,
    pub borrows: u64,
    pub fmts: u64,
}

pub struct Ledger {
    epoch: u32,
    objs: Vec<Obj>,
    alive: usize,
    log_on: bool,
    log: Vec<Ev>,
    pub viol: Vec<Viol>,
    pub viol_total: u64,
    pub counts: Counts,
    ctx_hist: u64,
    ctx_step: u32,
    ctx_op: &'static str,
}

const VIOL_CAP: usize = 64;

static L: Global<Ledger> = Global::new(Ledger::new());

#[derive(Debug, Clone, Copy, PartialEq, Eq)]
pub enum Status {
    Alive(usize),
    Dead(usize),
    BadMagic,
    Stale,
}

impl Ledger {
    const fn new() -> Self {
        Ledger {
            epoch: 1,
            objs: Vec::new(),
            alive: 0,
            log_on: false,
            log: Vec::new(),
            viol: Vec::new(),
            viol_total: 0,
            counts: Counts { news: 0, clones: 0, drops: 0, eqs: 0, borrows: 0, fmts: 0 },
            ctx_hist: 0,
            ctx_step: 0,
            ctx_op: "",
        }
    }
    fn classify(&self, id: u64, magic: u64) -> Status {
        if magic != (MAGIC ^ id) {
            return Status::BadMagic;
        }
        let ep = (id >> 32) as u32;
        let ix = (id & 0xFFFF_FFFF) as usize;
        if ep != self.epoch || ix == 0 || ix > self.objs.len() {
            return Status::Stale;
        }
        if self.objs[ix - 1].alive {
            Status::Alive(ix - 1)
        } else {
            Status::Dead(ix - 1)
        }
    }
    fn push_viol(&mut self, prop: &str, sig: String, msg: String) {
        self.viol_total += 1;
        if self.viol.len() < VIOL_CAP {
            self.viol.push(Viol {
                prop: prop.to_string(),
                sig,
                msg,
                hist: self.ctx_hist,
                step: self.ctx_step,
                op: self.ctx_op,
            });
        }
    }
    fn mem_viol(&mut self, what: &str, id: u64, detail: &str) {
        let sig = format!("{}@{}", what, self.ctx_op);
        let msg = format!(
            "{} (object id {:#x}{}) during op `{}` (history {}, step {})",
            what, id, detail, self.ctx_op, self.ctx_hist, self.ctx_step
        );
        self.push_viol("MEM", sig, msg);
    }
    fn alloc_id(&mut self, kind: u8, a: u32, b: u32, parent: u64) -> u64 {
        self.objs.push(Obj {
            alive: true,
            drops: 0,
            kind,
            a,
            b,
            parent,
            clones_made: 0,
        });
        self.alive += 1;
        (u64::from(self.epoch) << 32) | (self.objs.len() as u64)
    }
}

#[inline]
fn with<R>(f: impl FnOnce(&mut Ledger) -> R) -> Option<R> {
    Some(L.with(f))
}

/// Create a fresh object; returns (id, magic).
pub fn on_new(kind: u8, a: u32, b: u32) -> (u64, u64) {
    with(|l| {
        l.counts.news += 1;
        let id = l.alloc_id(kind, a, b, 0);
        if l.log_on {
            l.log.push(Ev::New { id, kind });
        }
        (id, MAGIC ^ id)
    })
    .unwrap_or((0, 0))
}

/// Clone `from`; violation if the source is not a live, well-formed object.
pub fn on_clone(from_id: u64, from_magic: u64, kind: u8, a: u32, b: u32) -> (u64, u64) {
    with(|l| {
        l.counts.clones += 1;
        match l.classify(from_id, from_magic) {
            Status::Alive(ix) => l.objs[ix].clones_made += 1,
            Status::Dead(_) => l.mem_viol("clone-of-dead-object", from_id, ""),
            Status::BadMagic => l.mem_viol("clone-of-uninit-slot", from_id, ", bad magic"),
            Status::Stale => l.mem_viol("clone-of-stale-object", from_id, ""),
        }
        let id = l.alloc_id(kind, a, b, from_id);
        if l.log_on {
            l.log.push(Ev::Clone {
                from: from_id,
                to: id,
                kind,
            });
        }
        (id, MAGIC ^ id)
    })
    .unwrap_or((0, 0))
}

pub fn on_drop(id: u64, magic: u64, kind: u8) {
    with(|l| {
        l.counts.drops += 1;
        match l.classify(id, magic) {
            Status::Alive(ix) => {
                l.objs[ix].alive = false;
                l.objs[ix].drops += 1;
                l.alive -= 1;
            }
            Status::Dead(ix) => {
                l.objs[ix].drops = l.objs[ix].drops.saturating_add(1);
                l.mem_viol("double-drop", id, "");
            }
            Status::BadMagic => l.mem_viol("drop-of-uninit-slot", id, ", bad magic"),
            Status::Stale => l.mem_viol("drop-of-stale-object", id, ""),
        }
        if l.log_on {
            l.log.push(Ev::Drop { id, kind });
        }
    });
}

/// Any use of an object by user-visible code (eq, borrow, fmt, or the harness reading a
/// reference the API returned).  Returns true if the object is live and well-formed.
pub fn observe(id: u64, magic: u64, how: &'static str) -> bool {
    with(|l| match l.classify(id, magic) {
        Status::Alive(_) => true,
        Status::Dead(_) => {
            l.mem_viol("use-of-dead-object", id, &format!(", via {}", how));
            false
        }
        Status::BadMagic => {
            l.mem_viol("use-of-uninit-slot", id, &format!(", bad magic, via {}", how));
            false
        }
        Status::Stale => {
            l.mem_viol("use-of-stale-object", id, &format!(", via {}", how));
            false
        }
    })
    .unwrap_or(true)
}

pub fn note_eq(a: u64, b: u64) {
    with(|l| {
        l.counts.eqs += 1;
        if l.log_on {
            l.log.push(Ev::Eq { a, b });
        }
    });
}
pub fn note_borrow(id: u64) {
    with(|l| {
        l.counts.borrows += 1;
        if l.log_on {
            l.log.push(Ev::Borrow { id });
        }
    });
}
pub fn note_fmt(id: u64) {
    with(|l| {
        l.counts.fmts += 1;
        if l.log_on {
            l.log.push(Ev::Fmt { id });
        }
    });
}

/// Quiet status query (no violation recorded).
pub fn status(id: u64) -> Status {
    with(|l| l.classify(id, MAGIC ^ id)).unwrap_or(Status::Stale)
}
pub fn is_alive(id: u64) -> bool {
    matches!(status(id), Status::Alive(_))
}
pub fn info(id: u64) -> Option<Obj> {
    with(|l| match l.classify(id, MAGIC ^ id) {
        Status::Alive(ix) | Status::Dead(ix) => Some(l.objs[ix].clone()),
        _ => None,
    })
    .flatten()
}
pub fn alive_count() -> usize {
    with(|l| l.alive).unwrap_or(0)
}
/// ids of all live objects (for leak reports)
pub fn alive_ids() -> Vec<u64> {
    with(|l| {
        let ep = u64::from(l.epoch) << 32;
        l.objs
            .iter()
            .enumerate()
            .filter(|(_, o)| o.alive)
            .map(|(i, _)| ep | (i as u64 + 1))
            .collect()
    })
    .unwrap_or_default()
}
pub fn total_objects() -> usize {
    with(|l| l.objs.len()).unwrap_or(0)
}

/// Start a new epoch: forget all objects (ids from earlier epochs become "stale").
pub fn reset() {
    with(|l| {
        l.epoch = l.epoch.wrapping_add(1).max(1);
        l.objs.clear();
        l.alive = 0;
        l.log.clear();
        l.log_on = false;
    });
}

pub fn log_start() {
    with(|l| {
        l.log.clear();
        l.log_on = true;
    });
}
pub fn log_take() -> Vec<Ev> {
    with(|l| {
        l.log_on = false;
        std::mem::take(&mut l.log)
    })
    .unwrap_or_default()
}

pub fn set_ctx(hist: u64, step: u32, op: &'static str) {
    with(|l| {
        l.ctx_hist = hist;
        l.ctx_step = step;
        l.ctx_op = op;
    });
}
pub fn ctx() -> (u64, u32, &'static str) {
    with(|l| (l.ctx_hist, l.ctx_step, l.ctx_op)).unwrap_or((0, 0, ""))
}

/// Record a violation of a specific property, raised by an engine-level oracle.
pub fn violation(prop: &str, sig: impl Into<String>, msg: impl Into<String>) {
    let sig = sig.into();
    let msg = msg.into();
    with(|l| l.push_viol(prop, sig, msg));
}
pub fn viol_total() -> u64 {
    with(|l| l.viol_total).unwrap_or(0)
}
pub fn take_violations() -> (Vec<Viol>, u64) {
    with(|l| {
        let t = l.viol_total;
        l.viol_total = 0;
        (std::mem::take(&mut l.viol), t)
    })
    .unwrap_or((Vec::new(), 0))
}
pub fn counts() -> Counts {
    with(|l| l.counts.clone()).unwrap_or_default()
}
