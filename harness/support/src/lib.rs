//! Monitoring support library for the micromap runtime-verification harness.
//!
//! This crate deliberately has NO dependency on micromap: it is compiled once per build
//! variant and never again when `/repo` changes.  It provides
//!
//! * `rng`     deterministic SplitMix64 streams keyed by (seed, property, engine, shard, history)
//! * `ledger`  the ownership ledger (conservation + exactly-once monitor) and the violation log
//! * `elems`   instrumented element types (tracked keys/values, zero-sized, large)
//! * `fault`   callback counter + single-shot injected panic
//! * `alloc`   counting global allocator
//! * `frame`   canary frames / poisoned placement / exact-size heap placement
//! * `report`  worker -> orchestrator JSON report, coverage counters, fingerprint sets
//! * `args`    tiny argv parser shared by every engine binary

pub mod alloc;
pub mod args;
pub mod elems;
pub mod fault;
pub mod frame;
pub mod glob;
pub mod ledger;
pub mod report;
pub mod rng;
