//! Worker → orchestrator report: JSON on stdout (one line, prefixed `REPORT `).

use crate::ledger;
use std::collections::{BTreeMap, HashSet};
use std::fmt::Write as _;

/// Set of 64-bit fingerprints with deterministic down-sampling: when it grows beyond `CAP`
/// the sampling level is raised (only fingerprints whose low `level` bits are zero are kept),
/// so every worker reports a bounded list and the orchestrator can take an exact union at the
/// coarsest level — a measured lower bound on the number of distinct cases.
pub struct FpSet {
    set: HashSet<u64>,
    level: u32,
    cap: usize,
}
impl FpSet {
    pub fn new(cap: usize) -> Self {
        FpSet {
            set: HashSet::new(),
            level: 0,
            cap,
        }
    }
    #[inline]
    pub fn add(&mut self, fp: u64) {
        let mask = (1u64 << self.level) - 1;
        if fp & mask != 0 {
            return;
        }
        self.set.insert(fp);
        if self.set.len() > self.cap {
            self.level += 1;
            let mask = (1u64 << self.level) - 1;
            self.set.retain(|x| x & mask == 0);
        }
    }
    pub fn len(&self) -> usize {
        self.set.len()
    }
    pub fn is_empty(&self) -> bool {
        self.set.is_empty()
    }
}

#[derive(Clone, Debug)]
pub struct ViolOut {
    pub prop: String,
    pub sig: String,
    pub msg: String,
    pub hist: u64,
    pub step: u32,
    pub op: String,
    /// human-readable operation list of the failing history (up to the failing step)
    pub history: Vec<String>,
}

pub struct Report {
    pub prop: String,
    pub engine: String,
    pub seed: u64,
    pub shard: (u64, u64),
    pub evaluations: u64,
    pub histories: u64,
    pub fps: FpSet,
    pub cov: BTreeMap<String, u64>,
    pub samples: Vec<String>,
    pub viol: Vec<ViolOut>,
    pub viol_total: u64,
    pub nums: BTreeMap<String, u64>,
    pub notes: Vec<String>,
    pub exhaustive: bool,
    /// required coverage rows: the run is inconclusive if any of them is zero
    pub required: Vec<String>,
}

pub fn esc(s: &str) -> String {
    let mut o = String::with_capacity(s.len() + 2);
    o.push('"');
    for c in s.chars() {
        match c {
            '"' => o.push_str("\\\""),
            '\\' => o.push_str("\\\\"),
            '\n' => o.push_str("\\n"),
            '\r' => o.push_str("\\r"),
            '\t' => o.push_str("\\t"),
            c if (c as u32) < 0x20 => {
                let _ = write!(o, "\\u{:04x}", c as u32);
            }
            c => o.push(c),
        }
    }
    o.push('"');
    o
}

impl Report {
    pub fn new(prop: &str, engine: &str, seed: u64, shard: (u64, u64)) -> Self {
        Report {
            prop: prop.to_string(),
            engine: engine.to_string(),
            seed,
            shard,
            evaluations: 0,
            histories: 0,
            fps: FpSet::new(1 << 15),
            cov: BTreeMap::new(),
            samples: Vec::new(),
            viol: Vec::new(),
            viol_total: 0,
            nums: BTreeMap::new(),
            notes: Vec::new(),
            exhaustive: false,
            required: Vec::new(),
        }
    }
    #[inline]
    pub fn hit(&mut self, key: &str) {
        if let Some(c) = self.cov.get_mut(key) {
            *c += 1;
        } else {
            self.cov.insert(key.to_string(), 1);
        }
    }
    pub fn hit2(&mut self, a: &str, b: &str) {
        let mut k = String::with_capacity(a.len() + b.len() + 1);
        k.push_str(a);
        k.push(':');
        k.push_str(b);
        self.hit(&k);
    }
    pub fn num(&mut self, key: &str, add: u64) {
        *self.nums.entry(key.to_string()).or_insert(0) += add;
    }
    pub fn num_max(&mut self, key: &str, v: u64) {
        let e = self.nums.entry(key.to_string()).or_insert(0);
        if v > *e {
            *e = v;
        }
    }
    pub fn sample(&mut self, s: String) {
        if self.samples.len() < 6 {
            self.samples.push(s);
        }
    }
    /// Move violations recorded in the ledger into the report.  `mem_prop` is the property
    /// that ledger-raised ("MEM") violations are attributed to in this run.
    pub fn absorb_violations(&mut self, mem_prop: &str, history: &dyn Fn() -> Vec<String>) {
        let (v, total) = ledger::take_violations();
        if total == 0 {
            return;
        }
        self.viol_total += total;
        let h = if self.viol.len() < 16 { history() } else { Vec::new() };
        for x in v {
            if self.viol.len() >= 16 {
                break;
            }
            let prop = if x.prop == "MEM" {
                mem_prop.to_string()
            } else {
                x.prop.clone()
            };
            self.viol.push(ViolOut {
                sig: format!("{}/{}", prop, x.sig),
                prop,
                msg: x.msg,
                hist: x.hist,
                step: x.step,
                op: x.op.to_string(),
                history: h.clone(),
            });
        }
    }

    pub fn to_json(&self) -> String {
        let mut o = String::new();
        o.push('{');
        let _ = write!(o, "\"prop\":{},", esc(&self.prop));
        let _ = write!(o, "\"engine\":{},", esc(&self.engine));
        let _ = write!(o, "\"seed\":{},", self.seed);
        let _ = write!(o, "\"shard\":[{},{}],", self.shard.0, self.shard.1);
        let _ = write!(o, "\"evaluations\":{},", self.evaluations);
        let _ = write!(o, "\"histories\":{},", self.histories);
        let _ = write!(o, "\"exhaustive\":{},", self.exhaustive);
        let _ = write!(o, "\"fp_level\":{},", self.fps.level);
        o.push_str("\"fps\":[");
        let mut first = true;
        for f in &self.fps.set {
            if !first {
                o.push(',');
            }
            first = false;
            let _ = write!(o, "\"{:x}\"", f);
        }
        o.push_str("],");
        o.push_str("\"cov\":{");
        first = true;
        for (k, v) in &self.cov {
            if !first {
                o.push(',');
            }
            first = false;
            let _ = write!(o, "{}:{}", esc(k), v);
        }
        o.push_str("},\"nums\":{");
        first = true;
        for (k, v) in &self.nums {
            if !first {
                o.push(',');
            }
            first = false;
            let _ = write!(o, "{}:{}", esc(k), v);
        }
        o.push_str("},\"required\":[");
        first = true;
        for s in &self.required {
            if !first {
                o.push(',');
            }
            first = false;
            o.push_str(&esc(s));
        }
        o.push_str("],\"samples\":[");
        first = true;
        for s in &self.samples {
            if !first {
                o.push(',');
            }
            first = false;
            o.push_str(&esc(s));
        }
        o.push_str("],\"notes\":[");
        first = true;
        for s in &self.notes {
            if !first {
                o.push(',');
            }
            first = false;
            o.push_str(&esc(s));
        }
        let _ = write!(o, "],\"viol_total\":{},\"violations\":[", self.viol_total);
        first = true;
        for v in &self.viol {
            if !first {
                o.push(',');
            }
            first = false;
            let _ = write!(
                o,
                "{{\"prop\":{},\"sig\":{},\"msg\":{},\"hist\":{},\"step\":{},\"op\":{},\"history\":[",
                esc(&v.prop),
                esc(&v.sig),
                esc(&v.msg),
                v.hist,
                v.step,
                esc(&v.op)
            );
            let mut f2 = true;
            for h in &v.history {
                if !f2 {
                    o.push(',');
                }
                f2 = false;
                o.push_str(&esc(h));
            }
            o.push_str("]}");
        }
        o.push_str("]}");
        o
    }
    pub fn emit(&self) {
        println!("REPORT {}", self.to_json());
    }
}
