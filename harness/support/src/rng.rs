//! SplitMix64: tiny, deterministic, good enough for workload generation.

#[derive(Clone, Debug)]
pub struct Rng(pub u64);

#[inline]
pub fn mix(mut z: u64) -> u64 {
    z = z.wrapping_add(0x9E37_79B9_7F4A_7C15);
    z = (z ^ (z >> 30)).wrapping_mul(0xBF58_476D_1CE4_E5B9);
    z = (z ^ (z >> 27)).wrapping_mul(0x94D0_49BB_1331_11EB);
    z ^ (z >> 31)
}

/// FNV-style string hash, used to key streams by property / engine name.
pub fn hash_str(s: &str) -> u64 {
    let mut h: u64 = 0xcbf2_9ce4_8422_2325;
    for b in s.bytes() {
        h ^= u64::from(b);
        h = h.wrapping_mul(0x0000_0100_0000_01B3);
    }
    h
}

impl Rng {
    /// A stream keyed by a tuple of words.
    pub fn keyed(parts: &[u64]) -> Self {
        let mut s = 0x1234_5678_9ABC_DEF0u64;
        for p in parts {
            s = mix(s ^ mix(*p));
        }
        Rng(s)
    }
    #[inline]
    pub fn next(&mut self) -> u64 {
        self.0 = self.0.wrapping_add(0x9E37_79B9_7F4A_7C15);
        let mut z = self.0;
        z = (z ^ (z >> 30)).wrapping_mul(0xBF58_476D_1CE4_E5B9);
        z = (z ^ (z >> 27)).wrapping_mul(0x94D0_49BB_1331_11EB);
        z ^ (z >> 31)
    }
    /// Uniform in 0..n (n > 0).
    #[inline]
    pub fn below(&mut self, n: u64) -> u64 {
        debug_assert!(n > 0);
        // multiply-shift; bias irrelevant here
        ((u128::from(self.next()) * u128::from(n)) >> 64) as u64
    }
    #[inline]
    pub fn usize_below(&mut self, n: usize) -> usize {
        self.below(n as u64) as usize
    }
    /// true with probability num/den
    #[inline]
    pub fn chance(&mut self, num: u64, den: u64) -> bool {
        self.below(den) < num
    }
    /// Pick an index according to integer weights.
    pub fn weighted(&mut self, w: &[u32]) -> usize {
        let total: u64 = w.iter().map(|x| u64::from(*x)).sum();
        let mut r = self.below(total.max(1));
        for (i, x) in w.iter().enumerate() {
            let x = u64::from(*x);
            if r < x {
                return i;
            }
            r -= x;
        }
        w.len() - 1
    }
    /// Geometric-ish length in lo..=hi, biased to short.
    pub fn length(&mut self, lo: usize, hi: usize) -> usize {
        let mut n = lo;
        while n < hi && !self.chance(1, 3) {
            n = (n * 2).max(n + 1);
        }
        let n = n.min(hi);
        lo + self.usize_below(n - lo + 1)
    }
    pub fn shuffle<T>(&mut self, v: &mut [T]) {
        for i in (1..v.len()).rev() {
            let j = self.usize_below(i + 1);
            v.swap(i, j);
        }
    }
}

/// 64-bit fingerprint combiner for coverage bookkeeping.
#[derive(Clone, Copy)]
pub struct Fp(pub u64);
impl Fp {
    pub fn new(tag: u64) -> Self {
        Fp(mix(tag ^ 0xA076_1D64_78BD_642F))
    }
    #[inline]
    pub fn add(&mut self, x: u64) {
        self.0 = mix(self.0 ^ x.wrapping_mul(0xE703_7ED1_A0B4_28DB));
    }
    #[inline]
    pub fn get(self) -> u64 {
        self.0
    }
}
