#!/bin/bash
# usage: confirm_seed.sh Cxx [suffix]  — independently confirm a sub-agent's change in its scratch worktree:
#  (1) patch applies to a clean tree, (2) crate builds and the pinned test suite passes WITH the change,
#  (3) the demonstration FAILS with the change, (4) the demonstration PASSES without it.
# On success copies patch.diff / demo.rs / notes.md into /verif/seeded/<id>/ (meta.json is written by the caller).
ID=$1; SFX=${2:-}
WT=/tmp/seedwt/$ID$SFX; OUT=/tmp/seedout/$ID$SFX
low=$(echo $ID | tr 'A-Z' 'a-z')
set -u
cd $WT || exit 2
git checkout -q -- . ; rm -f tests/demo_*.rs
git apply $OUT/patch.diff || { echo "CONFIRM $ID: patch does not apply"; exit 1; }
FEAT=""
cargo build --offline -q 2>&1 | tail -3
suite=$(cargo test --workspace --no-fail-fast --offline 2>&1 | grep -E "^test result" | tr '\n' ' ')
echo "suite with change: $suite"
echo "$suite" | grep -q "131 passed; 0 failed" || { echo "CONFIRM $ID: suite does not pass with the change"; exit 1; }
echo "$suite" | grep -q "FAILED\|[1-9][0-9]* failed" && { echo "CONFIRM $ID: failures in suite"; exit 1; }
cp $OUT/demo.rs tests/demo_$low.rs
if grep -q "serde" $OUT/demo.rs; then FEAT="--features serde"; fi
with=$(cargo test --offline $FEAT --test demo_$low 2>&1 | grep -E "^test result|error\[|error:" | head -3 | tr '\n' ' ')
echo "demo with change: $with"
echo "$with" | grep -q "FAILED\|[1-9][0-9]* failed" || { echo "CONFIRM $ID: demo does not fail with the change"; exit 1; }
git checkout -q -- src
without=$(cargo test --offline $FEAT --test demo_$low 2>&1 | grep -E "^test result|error\[|error:" | head -3 | tr '\n' ' ')
echo "demo without change: $without"
echo "$without" | grep -q "test result: ok" || { echo "CONFIRM $ID: demo does not pass without the change"; exit 1; }
mkdir -p /verif/seeded/$ID$SFX
cp $OUT/patch.diff $OUT/demo.rs $OUT/notes.md /verif/seeded/$ID$SFX/
echo "CONFIRM $ID$SFX: ok | suite: $suite | with: $with | without: $without" | tee /verif/seeded/$ID$SFX/confirmation.txt
