#!/bin/bash
# usage: confirm_seed2.sh <Cxx> <worktree dir> <deliverables dir> <dest name under /verif/seeded>
# Same four checks as confirm_seed.sh, for deliverables that live in sub-directories (round 5: A / B).
ID=$1; WT=$2; OUT=$3; DEST=$4
low=$(echo $ID | tr 'A-Z' 'a-z')
cd $WT || exit 2
git reset -q; git checkout -q -- . ; git clean -fdq -- src; rm -f tests/demo_*.rs
[ -f $OUT/patch.diff ] || { echo "CONFIRM $DEST: no patch.diff"; exit 1; }
git apply $OUT/patch.diff || { echo "CONFIRM $DEST: patch does not apply"; exit 1; }
lines=$(grep -cE '^[+-][^+-]' $OUT/patch.diff)
cargo build --offline -q 2>&1 | tail -3
suite=$(cargo test --workspace --no-fail-fast --offline 2>&1 | grep -E "^test result" | tr '\n' ' ')
echo "$suite" | grep -qE "1[3-9][0-9] passed; 0 failed" || { echo "CONFIRM $DEST: suite does not pass with the change: $suite"; git checkout -q -- .; exit 1; }
echo "$suite" | grep -q "FAILED\|[1-9][0-9]* failed" && { echo "CONFIRM $DEST: failures in suite"; git checkout -q -- .; exit 1; }
cp $OUT/demo.rs tests/demo_$low.rs
FEAT=""; if grep -q "serde" $OUT/demo.rs; then FEAT="--features serde"; fi
cargo test --offline $FEAT --test demo_$low > /tmp/confirm_with_$DEST.log 2>&1; rc_with=$?
with=$(grep -E "^test result|SIGABRT|SIGSEGV" /tmp/confirm_with_$DEST.log | head -2 | tr '\n' ' ')
[ $rc_with -ne 0 ] || { echo "CONFIRM $DEST: demo does not fail with the change"; git checkout -q -- .; rm -f tests/demo_*.rs; exit 1; }
git checkout -q -- src
without=$(cargo test --offline $FEAT --test demo_$low 2>&1 | grep -E "^test result" | head -2 | tr '\n' ' ')
echo "$without" | grep -q "test result: ok" || { echo "CONFIRM $DEST: demo does not pass without the change: $without"; rm -f tests/demo_*.rs; exit 1; }
echo "$without" | grep -q " 0 passed" && { echo "CONFIRM $DEST: demo runs zero tests without the change"; rm -f tests/demo_*.rs; exit 1; }
rm -f tests/demo_*.rs
mkdir -p /verif/seeded/$DEST
cp $OUT/patch.diff $OUT/demo.rs /verif/seeded/$DEST/; cp $OUT/notes.md /verif/seeded/$DEST/ 2>/dev/null
echo "CONFIRM $DEST: ok ($lines changed lines) | suite: $suite | with: exit $rc_with $with | without: $without" | tee /verif/seeded/$DEST/confirmation.txt
