#!/bin/bash
# usage: confirm_seed3.sh <Cxx> <worktree dir> <deliverables dir> <dest name under /verif/seeded>
# Round 6 (natively invisible undefined behaviour): the suite passes with the change in debug AND release,
# the demo FAILS UNDER MIRI with the change and passes under Miri without it; whether the demo also
# fails natively is recorded, not required.
ID=$1; WT=$2; OUT=$3; DEST=$4
low=$(echo $ID | tr 'A-Z' 'a-z')
cd $WT || exit 2
git checkout -q -- . ; rm -f tests/demo_*.rs
[ -f $OUT/patch.diff ] || { echo "CONFIRM $DEST: no patch.diff"; exit 1; }
git apply $OUT/patch.diff || { echo "CONFIRM $DEST: patch does not apply"; exit 1; }
lines=$(grep -cE '^[+-][^+-]' $OUT/patch.diff)
cargo build --offline -q 2>&1 | tail -3
suite=$(cargo test --workspace --no-fail-fast --offline 2>&1 | grep -E "^test result" | tr '\n' ' ')
echo "$suite" | grep -q "131 passed; 0 failed" || { echo "CONFIRM $DEST: suite does not pass with the change: $suite"; git checkout -q -- .; exit 1; }
echo "$suite" | grep -q "FAILED\|[1-9][0-9]* failed" && { echo "CONFIRM $DEST: failures in suite"; git checkout -q -- .; exit 1; }
rsuite=$(cargo test --workspace --no-fail-fast --offline --release --lib 2>&1 | grep -E "^test result" | tr '\n' ' ')
echo "$rsuite" | grep -q " 0 failed" || { echo "CONFIRM $DEST: release unit tests do not pass with the change: $rsuite"; git checkout -q -- .; exit 1; }
cp $OUT/demo.rs tests/demo_$low.rs
cargo test --offline --test demo_$low > /tmp/confirm3_native_$DEST.log 2>&1; rc_native=$?
MIRIFLAGS="-Zmiri-disable-isolation" cargo +nightly miri test --offline --test demo_$low > /tmp/confirm3_with_$DEST.log 2>&1; rc_with=$?
what=$(grep -E "Undefined Behavior|error: |test result" /tmp/confirm3_with_$DEST.log | head -2 | tr '\n' ' ' | cut -c1-300)
[ $rc_with -ne 0 ] || { echo "CONFIRM $DEST: demo does not fail under Miri with the change"; git checkout -q -- .; rm -f tests/demo_*.rs; exit 1; }
git checkout -q -- src
MIRIFLAGS="-Zmiri-disable-isolation" cargo +nightly miri test --offline --test demo_$low > /tmp/confirm3_without_$DEST.log 2>&1; rc_without=$?
without=$(grep -E "^test result" /tmp/confirm3_without_$DEST.log | head -2 | tr '\n' ' ')
[ $rc_without -eq 0 ] || { echo "CONFIRM $DEST: demo does not pass under Miri without the change: $(tail -5 /tmp/confirm3_without_$DEST.log | tr '\n' ' ')"; rm -f tests/demo_*.rs; exit 1; }
echo "$without" | grep -q " 0 passed" && { echo "CONFIRM $DEST: demo runs zero tests without the change"; rm -f tests/demo_*.rs; exit 1; }
rm -f tests/demo_*.rs
mkdir -p /verif/seeded/$DEST
cp $OUT/patch.diff $OUT/demo.rs /verif/seeded/$DEST/; cp $OUT/notes.md /verif/seeded/$DEST/ 2>/dev/null
echo "CONFIRM $DEST: ok ($lines changed lines) | suite (debug): $suite | release unit tests: $rsuite | demo natively with the change: exit $rc_native | demo under Miri with the change: exit $rc_with $what | under Miri without: $without" | tee /verif/seeded/$DEST/confirmation.txt
