#!/bin/bash
# usage: confirm_seed4.sh <Cxx> <worktree dir> <deliverables dir> <dest name under /verif/seeded>
# Round 10 (build-configuration dependent): the pinned suite passes with the change in the DEFAULT configuration;
# the demo FAILS with the change when built with the extra cargo flags in <deliverables>/flags.txt and PASSES
# with the same flags without the change; how the demo behaves in the default configuration is recorded.
ID=$1; WT=$2; OUT=$3; DEST=$4
low=$(echo $ID | tr 'A-Z' 'a-z')
cd $WT || exit 2
git reset -q; git checkout -q -- . ; git clean -fdq -- src; rm -f tests/demo_*.rs
[ -f $OUT/patch.diff ] || { echo "CONFIRM $DEST: no patch.diff"; exit 1; }
FLAGS=$(head -1 $OUT/flags.txt 2>/dev/null | tr -d '\r')
echo "$FLAGS" | grep -qE '^( *(--release|--features std|--features serde|--features "?std,serde"?))+ *$' || { echo "CONFIRM $DEST: flags.txt missing or unexpected: '$FLAGS'"; exit 1; }
git apply $OUT/patch.diff || { echo "CONFIRM $DEST: patch does not apply"; exit 1; }
lines=$(grep -cE '^[+-][^+-]' $OUT/patch.diff)
cargo build --offline -q 2>&1 | tail -3
suite=$(cargo test --workspace --no-fail-fast --offline 2>&1 | grep -E "^test result" | tr '\n' ' ')
echo "$suite" | grep -qE "1[3-9][0-9] passed; 0 failed" || { echo "CONFIRM $DEST: suite does not pass with the change: $suite"; git checkout -q -- .; exit 1; }
echo "$suite" | grep -q "FAILED\|[1-9][0-9]* failed" && { echo "CONFIRM $DEST: failures in suite"; git checkout -q -- .; exit 1; }
cp $OUT/demo.rs tests/demo_$low.rs
cargo test --offline --test demo_$low > /tmp/confirm4_default_$DEST.log 2>&1; rc_default=$?
cargo test --offline $FLAGS --test demo_$low > /tmp/confirm4_with_$DEST.log 2>&1; rc_with=$?
with=$(grep -E "^test result|SIGABRT|SIGSEGV" /tmp/confirm4_with_$DEST.log | head -2 | tr '\n' ' ')
[ $rc_with -ne 0 ] || { echo "CONFIRM $DEST: demo does not fail with the change under '$FLAGS'"; git checkout -q -- .; rm -f tests/demo_*.rs; exit 1; }
git checkout -q -- src; git clean -fdq -- src
without=$(cargo test --offline $FLAGS --test demo_$low 2>&1 | grep -E "^test result" | head -2 | tr '\n' ' ')
echo "$without" | grep -q "test result: ok" || { echo "CONFIRM $DEST: demo does not pass without the change under '$FLAGS': $without"; rm -f tests/demo_*.rs; exit 1; }
echo "$without" | grep -q " 0 passed" && { echo "CONFIRM $DEST: demo runs zero tests without the change"; rm -f tests/demo_*.rs; exit 1; }
rm -f tests/demo_*.rs
mkdir -p /verif/seeded/$DEST
cp $OUT/patch.diff $OUT/demo.rs $OUT/flags.txt /verif/seeded/$DEST/; cp $OUT/notes.md /verif/seeded/$DEST/ 2>/dev/null
echo "CONFIRM $DEST: ok ($lines changed lines) | suite (default configuration): $suite | demo with the change, default configuration: exit $rc_default | demo with the change under '$FLAGS': exit $rc_with $with | demo without the change under '$FLAGS': $without" | tee /verif/seeded/$DEST/confirmation.txt
