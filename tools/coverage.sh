#!/bin/bash
# Informational: which parts of /repo/src do the engines' quick-sized workloads execute?
# Builds every engine with -Cinstrument-coverage (nightly; llvm-tools from the nightly sysroot), runs each
# engine once with a small budget and prints llvm-cov's per-file summary plus the never-executed lines.
# Never part of a verdict.  Scratch data goes to $SCRATCH (default: a mktemp directory, removed at the end).
set -e
cd "$(dirname "$0")/../harness"
SCRATCH=${SCRATCH:-$(mktemp -d)}
export CARGO_TARGET_DIR=$SCRATCH/target RUSTFLAGS="--cap-lints=warn -Cinstrument-coverage" CARGO_NET_OFFLINE=true
cargo +nightly build -q -p engines --features serde --bins
B=$CARGO_TARGET_DIR/debug
export LLVM_PROFILE_FILE="$SCRATCH/prof/%p-%m.profraw"
mkdir -p $SCRATCH/prof
for p in C01 C02 C05 C09 C10 C12 C15 C18 C19; do $B/eng_map --prop $p --fam track,copy,raw,zst,nodrop,large --budget 60000 >/dev/null; done
for p in C07 C02 C05 C09 C10 C12 C15 C19; do $B/eng_set --prop $p --fam track,copy,raw,zst,nodrop --budget 60000 >/dev/null; done
$B/eng_panic --prop C04 --budget 1 --big 5000 >/dev/null
$B/eng_panic --prop C18 --only-op insert_unchecked --budget 1 >/dev/null
$B/eng_full --prop C03 --budget 20 >/dev/null
$B/eng_noheap --prop C06 --budget 100000 >/dev/null
$B/eng_algebra --prop C08 --budget 1 --random 300 >/dev/null
$B/eng_entry --prop C11 --budget 1 --random 2000 >/dev/null
$B/eng_disjoint --prop C13 --budget 1 --random 1000 >/dev/null
$B/eng_disjoint --prop C18 --budget 1 --random 1000 >/dev/null
$B/eng_eq --prop C14 --budget 1 --random 1000 >/dev/null
$B/eng_bulk --prop C16 --budget 1 --random 1000 >/dev/null
$B/eng_liar --prop C17 --budget 100000 >/dev/null
$B/eng_serde --prop C20 --budget 20000 >/dev/null
T=$(rustc +nightly --print sysroot)/lib/rustlib/x86_64-unknown-linux-gnu/bin
$T/llvm-profdata merge -sparse $SCRATCH/prof/*.profraw -o $SCRATCH/all.profdata
OBJS=$(for b in eng_map eng_set eng_panic eng_full eng_noheap eng_algebra eng_entry eng_disjoint eng_eq eng_bulk eng_liar eng_serde; do echo -n "-object $B/$b "; done)
$T/llvm-cov report $OBJS -instr-profile=$SCRATCH/all.profdata --sources /repo/src 2>/dev/null
echo "--- lines never executed:"
$T/llvm-cov show $OBJS -instr-profile=$SCRATCH/all.profdata --sources /repo/src --show-line-counts-or-regions 2>/dev/null | grep -E "^\s+[0-9]+\|\s+0\|" || true
rm -rf "$SCRATCH"
