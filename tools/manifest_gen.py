"""Regenerate /verif/MANIFEST.json from tools/plans.py (single source of truth)."""
import json
import os

import plans

ALL = ['C%02d' % i for i in range(1, 21)]

PENDING = 'check under construction in this round (see DESIGN.md section 3); will be claimed once its engine is committed'


def write(root):
    checks = []
    engines = {}
    for pid in plans.claimed():
        p = plans.PLANS[pid]
        bins = sorted({j.get('bin', 'gate') for t in ('quick', 'thorough') for j in plans.jobs_for(pid, t)})
        for b in bins:
            engines.setdefault(b, []).append(pid)
        checks.append({
            'property_id': pid,
            'quick_cmd': './check %s --tier quick' % pid,
            'thorough_cmd': './check %s --tier thorough' % pid,
            'evidence_file': 'evidence/%s.json' % pid,
            'replay_cmd_template': './check replay {path}',
            'engine': ','.join(bins),
            'level_claimed': {'category': p['level'], 'text': p['level_text'], 'design_ref': p['design_ref']},
            'level_note': p['level_note'],
            'technique': p['technique'],
        })
    na = [{'property_id': pid, 'reason': plans.NOT_APPLICABLE.get(pid, PENDING)} for pid in ALL if pid not in plans.PLANS]
    m = {
        'version': 1,
        'setup_cmd': './check setup',
        'hooks': {
            'guard': 'none',
            'enable': 'no source hooks: all monitors observe at the public API through instrumented element types; checks build /repo as a path dependency of /verif/harness',
            'baseline_off_cmd': 'cd /repo && cargo test --workspace --no-fail-fast --offline',
            'source_commits': [],
            'add_only': True,
        },
        'engines': [{'name': b, 'path': 'harness/engines/src/bin/%s.rs' % b if b != 'gate' else 'check (run_gate)',
                     'serves_properties': sorted(v),
                     'kind_free_text': 'worker binary: drives the real micromap crate under monitors and prints a JSON report' if b != 'gate' else 'compiler gate'}
                    for b, v in sorted(engines.items())],
        'checks': checks,
        'not_applicable': na,
        'notes': 'Runtime monitoring and sanitizers; see DESIGN.md. Exit status of every check: 0 held, 1 violated (VIOLATION line), 2 inconclusive (INCONCLUSIVE line, never a VIOLATION line).',
    }
    with open(os.path.join(root, 'MANIFEST.json'), 'w') as f:
        json.dump(m, f, indent=1)
        f.write('\n')
    print('MANIFEST.json: %d checks, %d not_applicable' % (len(checks), len(na)))
    return 0
