#!/usr/bin/env python3
"""Render mutants/selftest_results.json as the markdown detection table embedded in DESIGN.md
(between the markers <!-- MATRIX:BEGIN --> and <!-- MATRIX:END -->)."""
import json
import os
import re

ROOT = os.path.dirname(os.path.dirname(os.path.abspath(__file__)))


def main():
    res = json.load(open(os.path.join(ROOT, 'mutants', 'selftest_results.json')))
    cat = {m['name']: m for m in json.load(open(os.path.join(ROOT, 'mutants', 'catalogue.json')))['mutants']}
    rows = []
    for name in sorted(res):
        r = res[name]
        if name.startswith('seeded/'):
            mp = os.path.join(ROOT, name, 'meta.json')
            if not os.path.exists(mp):
                continue
            what = json.load(open(mp))['needs_to_manifest']
            src = 'sub-agent'
        else:
            if name not in cat:
                continue
            m = cat[name]
            what = (m.get('new') or m['edits'][0]['new']).strip().split('\n')[0][:70]
            what = '`%s` … (%s)' % (what.replace('|', '\\|'), m.get('file', ''))
            src = 'catalogue'
        for pid, c in sorted(r['checks'].items()):
            sig = ', '.join('`%s`' % s.replace('|', '\\|')[:80] for s in c.get('signatures', [])[:2])
            rows.append('| %s | %s | %s | %s | %s | %s |' % (name, src, pid + ' (' + c.get('tier', 'quick') + ')', 'caught' if c['caught'] else ('not judged (outside the property as stated)' if c.get('judged') is False else '**MISSED**'), sig, what[:160].replace('|', '\\|')))
    caught = sum(1 for r in res.values() for c in r['checks'].values() if c['caught'])
    total = sum(len(r['checks']) for r in res.values())
    table = ['| change | source | check run | result | first signatures | what the change is / needs |', '|---|---|---|---|---|---|'] + rows
    text = '\n'.join(table) + '\n\n%d of %d (change, check) runs ended in exit 1 with a VIOLATION line.\n' % (caught, total)
    p = os.path.join(ROOT, 'DESIGN.md')
    s = open(p).read()
    if '<!-- MATRIX:BEGIN -->' in s:
        s = re.sub(r'<!-- MATRIX:BEGIN -->.*<!-- MATRIX:END -->', '<!-- MATRIX:BEGIN -->\n' + text.replace('\\', '\\\\') + '<!-- MATRIX:END -->', s, flags=re.S)
        open(p, 'w').write(s)
        print('DESIGN.md matrix updated: %d/%d' % (caught, total))
    else:
        print(text)


if __name__ == '__main__':
    main()
