#!/usr/bin/env python3
"""Apply / revert one catalogue mutant in a repository tree (default /repo).

usage: mutant.py list
       mutant.py apply <name> [repo]
       mutant.py revert [repo]        (git checkout -- . in the tree)
"""
import json, subprocess, sys, os
CAT = os.path.join(os.path.dirname(os.path.abspath(__file__)), '..', 'mutants', 'catalogue.json')
def load():
    return json.load(open(CAT))['mutants']
def main():
    if len(sys.argv) < 2:
        print(__doc__); return 2
    cmd = sys.argv[1]
    if cmd == 'list':
        for m in load():
            print(m['name'], ','.join(m['properties']), m['file'])
        return 0
    if cmd == 'apply':
        name = sys.argv[2]; repo = sys.argv[3] if len(sys.argv) > 3 else '/repo'
        ms = [m for m in load() if m['name'] == name]
        if not ms:
            print('no such mutant', name); return 2
        m = ms[0]
        edits = m.get('edits') or [{'file': m['file'], 'old': m['old'], 'new': m['new']}]
        for e in edits:
            p = os.path.join(repo, e['file'])
            s = open(p).read()
            if s.count(e['old']) != 1:
                print('old text occurs %d times in %s' % (s.count(e['old']), p)); return 3
            open(p, 'w').write(s.replace(e['old'], e['new']))
        print('applied', name, 'to', repo)
        return 0
    if cmd == 'revert':
        repo = sys.argv[2] if len(sys.argv) > 2 else '/repo'
        subprocess.check_call(['git', '-C', repo, 'checkout', '--', '.'])
        return 0
    print(__doc__); return 2
sys.exit(main())
