#!/usr/bin/env python3
"""Systematic token-level mutation sweep over /repo/src (sensitivity measurement of the whole machinery).

Stage 1 (parallel, in scratch copies under --scratch): apply one mutant, build with the crate's own
flags (`#![deny(warnings)]` stays on, so a mutant that only compiles with a warning is dropped) and
run the pinned suite's tests (unit tests + integration tests; the pinned suite is nextest, which
runs no doc tests).  A mutant that compiles and passes is a *suite survivor*.

Stage 2 (sequential, in the repository the checks build from): apply each suite survivor, run the
quick checks cheapest-first until one exits 1 with a VIOLATION line, restore the tree.  A mutant
no check reports is a *machinery survivor*: equivalent, outside every property, or a gap.

Usage:
  mutsweep.py list                         [--repo R]            print the mutants
  mutsweep.py stage1 --out F               [--repo R] [--scratch D] [--jobs N]
  mutsweep.py stage2 --in F --out G        [--repo R] [--only id,id] [--props C01,C05,...]
The repository given by --repo must be clean (git status) for stage 2.
"""
import concurrent.futures as cf
import json
import os
import re
import shutil
import subprocess
import sys
import tempfile
import time

ROOT = os.path.dirname(os.path.dirname(os.path.abspath(__file__)))

ORDER = ['C01', 'C05', 'C07', 'C09', 'C10', 'C12', 'C15', 'C08', 'C16', 'C14', 'C11', 'C13', 'C19', 'C03', 'C18', 'C06', 'C20',
         'C17', 'C02', 'C04']


def code_lines(path):
    """(lineno, text) of the lines that are code: stops at the test module, skips comments and attributes."""
    out = []
    for i, l in enumerate(open(path).read().split('\n')):
        st = l.strip()
        if st.startswith('#[cfg(test)]'):
            break
        if not st or st.startswith('//') or st.startswith('#[') or st.startswith('#!['):
            continue
        out.append((i, l))
    return out


def strip_comment(l):
    # keep it simple: cut a trailing // comment that is not inside a string
    q = False
    for i, c in enumerate(l):
        if c == '"':
            q = not q
        if not q and l[i:i + 2] == '//':
            return l[:i], l[i:]
    return l, ''


REL = [(' <= ', ' < '), (' < ', ' <= '), (' >= ', ' > '), (' > ', ' >= '), (' == ', ' != '), (' != ', ' == ')]
ARITH = [(' + 1', ' + 0'), (' + 1', ' - 1'), (' - 1', ' - 0'), (' - 1', ' + 1'), (' += 1', ' += 0'), (' += 1', ' -= 1'), (' -= 1', ' -= 0'),
         (' -= 1', ' += 1'), (' + 2', ' + 1')]
LOGIC = [(' && ', ' || '), (' || ', ' && ')]
LIT = [('true', 'false'), ('false', 'true')]
RANGE = [('..=', '..'), ('..', '..=')]
METH = [('.all(', '.any('), ('.any(', '.all('), ('.find(', '.rfind('), ('.position(', '.rposition('), ('.is_some()', '.is_none()'),
        ('.is_none()', '.is_some()'), ('assume_init_drop()', 'assume_init_mut()'), ('assume_init_ref()', 'assume_init_read()'),
        ('assume_init_read()', 'assume_init_ref().clone()'),
        ('.len()', '.capacity()'), ('.capacity()', '.len()'), ('self.len', 'N'), ('.min(', '.max('), ('.max(', '.min('),
        ('.insert(', '.replace('), ('.replace(', '.insert('), ('insert_ii(', 'insert_i('), ('.contains(', '.insert_probe('),
        ('.0', '.1'), ('.1', '.0'), ('.iter()', '.iter().rev()'), ('.rev()', ''), ('.next_back()', '.next()'), ('.next()', '.next_back()'),
        ('.saturating_sub(', '.saturating_add('), ('.filter(', '.skip_while('), ('.chain(', '.zip('), ('Some(', 'None.or(Some('),
        ('.first()', '.last()'), ('.last()', '.first()'), ('split_at_mut(', 'split_at_mut(1 + '), ('.swap(', '.clone_from_slice_probe('),
        ('.and_then(', '.or_else(|| None).and_then('), ('.ok()', '.ok().and(None)'), ('.map(', '.map_probe(')]
NEG = [('if !', 'if '), ('(!', '('), (' !self', ' self'), ('while !', 'while ')]
CONST = [(' == 0', ' == 1'), (' > 0', ' > 1'), ('(0)', '(1)'), ('= 0;', '= 1;'), (', 0)', ', 1)'), ('[0]', '[1]'), (' 0..', ' 1..')]
BAD = ('_probe(',)   # placeholders that never compile are removed below


def occurrences(hay, needle):
    i = hay.find(needle)
    while i >= 0:
        yield i
        i = hay.find(needle, i + 1)


def mutants(repo):
    res = []
    files = []
    for d, _, fs in os.walk(os.path.join(repo, 'src')):
        for f in sorted(fs):
            if f.endswith('.rs'):
                files.append(os.path.join(d, f))
    for path in sorted(files):
        rel = os.path.relpath(path, repo)
        for (i, l) in code_lines(path):
            code, com = strip_comment(l)
            st = code.strip()
            cands = []
            for grp, table in (('rel', REL), ('arith', ARITH), ('logic', LOGIC), ('lit', LIT), ('range', RANGE), ('meth', METH), ('neg', NEG),
                               ('const', CONST)):
                for old, new in table:
                    if any(b in new for b in BAD):
                        continue
                    for pos in occurrences(code, old):
                        if grp == 'range':
                            # `..` inside `..=` / `...` handled once
                            if old == '..' and (code[pos:pos + 3] == '..=' or code[pos - 1:pos] == '.' or code[pos + 2:pos + 3] == '.'):
                                continue
                            # struct-rest `..Default::default()` or pattern `..` alone
                            if old == '..' and code[pos + 2:pos + 3] in (')', '}', ',', ' ') and code[pos - 1:pos] in ('(', '{', ' ', ','):
                                continue
                        if grp == 'lit':
                            a, b = code[pos - 1:pos], code[pos + len(old):pos + len(old) + 1]
                            if (a.isalnum() or a == '_') or (b.isalnum() or b == '_'):
                                continue
                        if grp == 'meth' and old in ('.0', '.1'):
                            b = code[pos + 2:pos + 3]
                            a = code[pos - 1:pos]
                            if b.isalnum() or b == '_' or a.isdigit() or a == '.':
                                continue
                        if grp == 'meth' and old == 'self.len':
                            b = code[pos + 8:pos + 9]
                            if b.isalnum() or b == '_' or b == '(':
                                continue
                            # not as an assignment target
                            if re.match(r'\s*(\+=|-=|=[^=])', code[pos + 8:]):
                                continue
                        if grp == 'rel' and ('->' in code[max(0, pos - 1):pos + 3] or '=>' in code[max(0, pos - 1):pos + 4]):
                            continue
                        cands.append((grp, pos, old, new))
            for grp, pos, old, new in cands:
                nl = code[:pos] + new + code[pos + len(old):] + com
                res.append(dict(file=rel, line=i, op='%s:%s->%s' % (grp, old.strip(), new.strip()), old=l, new=nl))
            # statement deletion: a whole line that is one statement
            if st.endswith(';') and not st.startswith(('let ', 'use ', 'pub ', 'type ', 'const ', 'return', 'fn ', 'mod ', 'extern ', 'impl', 'unsafe impl')) \
                    and st.count('(') == st.count(')') and st.count('{') == st.count('}'):
                ind = l[:len(l) - len(l.lstrip())]
                res.append(dict(file=rel, line=i, op='delete-statement', old=l, new=ind + '();' if False else ind))
    # ids
    seen = {}
    for m in res:
        base = '%s:%d' % (m['file'].replace('src/', ''), m['line'] + 1)
        seen[base] = seen.get(base, 0) + 1
        m['id'] = '%s#%d' % (base, seen[base])
    return res


def apply_to(repo, m):
    p = os.path.join(repo, m['file'])
    lines = open(p).read().split('\n')
    if lines[m['line']] != m['old']:
        raise RuntimeError('line mismatch in %s:%d' % (m['file'], m['line'] + 1))
    lines[m['line']] = m['new']
    open(p, 'w').write('\n'.join(lines))


def revert(repo, m):
    p = os.path.join(repo, m['file'])
    lines = open(p).read().split('\n')
    lines[m['line']] = m['old']
    open(p, 'w').write('\n'.join(lines))


def stage1_worker(args):
    wdir, ms = args
    env = dict(os.environ)
    env.pop('RUSTFLAGS', None)
    env['CARGO_NET_OFFLINE'] = 'true'
    out = []
    for m in ms:
        apply_to(wdir, m)
        t0 = time.time()
        try:
            b = subprocess.run(['cargo', 'test', '--offline', '--lib', '--tests', '--no-run', '-q'], cwd=wdir, env=env, stdout=subprocess.PIPE,
                               stderr=subprocess.STDOUT, text=True, timeout=600)
            if b.returncode == 0 and 'serialization' in m['file']:
                # code behind the serde feature is not even compiled by the pinned suite: it must at least build
                b = subprocess.run(['cargo', 'build', '--offline', '--features', 'serde', '-q'], cwd=wdir, env=env, stdout=subprocess.PIPE,
                                   stderr=subprocess.STDOUT, text=True, timeout=600)
            if b.returncode != 0:
                r = 'does-not-compile'
            else:
                try:
                    t = subprocess.run(['cargo', 'test', '--offline', '--lib', '--tests', '-q', '--', '--test-threads', '2'], cwd=wdir, env=env,
                                       stdout=subprocess.PIPE, stderr=subprocess.STDOUT, text=True, timeout=120)
                    r = 'suite-survivor' if t.returncode == 0 else 'killed-by-suite'
                except subprocess.TimeoutExpired:
                    r = 'killed-by-suite(timeout)'
        except subprocess.TimeoutExpired:
            r = 'does-not-compile(timeout)'
        finally:
            revert(wdir, m)
        m2 = dict(m)
        m2['stage1'] = r
        m2['stage1_s'] = round(time.time() - t0, 1)
        out.append(m2)
    return out


def copy_repo(repo, dst):
    os.makedirs(dst)
    for n in os.listdir(repo):
        if n in ('target', '.git'):
            continue
        s = os.path.join(repo, n)
        if os.path.isdir(s):
            shutil.copytree(s, os.path.join(dst, n))
        else:
            shutil.copy(s, os.path.join(dst, n))


def stage1(repo, out, scratch, jobs):
    ms = mutants(repo)
    print('stage1: %d mutants, %d workers' % (len(ms), jobs), flush=True)
    shutil.rmtree(scratch, ignore_errors=True)
    os.makedirs(scratch)
    parts = [[] for _ in range(jobs)]
    for i, m in enumerate(ms):
        parts[i % jobs].append(m)
    work = []
    for i, p in enumerate(parts):
        d = os.path.join(scratch, 'w%d' % i)
        copy_repo(repo, d)
        work.append((d, p))
    res = []
    try:
        with cf.ThreadPoolExecutor(jobs) as ex:
            for r in ex.map(stage1_worker, work):
                res.extend(r)
    finally:
        shutil.rmtree(scratch, ignore_errors=True)
    res.sort(key=lambda m: (m['file'], m['line'], m['id']))
    json.dump(res, open(out, 'w'), indent=1)
    c = {}
    for m in res:
        c[m['stage1']] = c.get(m['stage1'], 0) + 1
    print('stage1:', json.dumps(c))


def stage2(repo, inp, out, only, props):
    ms = [m for m in json.load(open(inp)) if m['stage1'] == 'suite-survivor']
    if only:
        ms = [m for m in ms if m['id'] in only]
    if '--reverse' in sys.argv:
        ms.reverse()
    if subprocess.run(['git', '-C', repo, 'status', '--porcelain', '--untracked-files=no'], stdout=subprocess.PIPE, text=True).stdout.strip():
        print('stage2: %s has uncommitted changes; refusing' % repo)
        return 2
    done = {}
    if os.path.exists(out):
        done = {m['id']: m for m in json.load(open(out))}
    scratch = tempfile.mkdtemp(prefix='verif-sweep-')
    res = list(done.values())
    try:
        for m in ms:
            if m['id'] in done:
                continue
            m = dict(m)
            m['runs'] = []
            m['caught_by'] = None
            t0 = time.time()
            try:
                apply_to(repo, m)
                for pid in props:
                    env = dict(os.environ)
                    env['VERIF_EVIDENCE_DIR'] = scratch
                    p = subprocess.run([os.path.join(ROOT, 'check'), pid], cwd=ROOT, env=env, stdout=subprocess.PIPE, stderr=subprocess.PIPE, text=True)
                    caught = p.returncode == 1 and 'VIOLATION property=%s' % pid in p.stdout
                    sigs = []
                    ev = os.path.join(scratch, pid + '.json')
                    if os.path.exists(ev):
                        try:
                            sigs = sorted(json.load(open(ev))['coverage'].get('violation_signatures', {}).keys())[:3]
                        except Exception:
                            pass
                    m['runs'].append(dict(prop=pid, exit=p.returncode, caught=caught, sigs=sigs, tail=p.stdout[-300:] if p.returncode not in (0, 1) else ''))
                    if caught:
                        m['caught_by'] = pid
                        break
            finally:
                revert(repo, m)
                subprocess.check_call(['git', '-C', repo, 'checkout', '--', '.'])
            m['stage2_s'] = round(time.time() - t0, 1)
            res.append(m)
            json.dump(res, open(out, 'w'), indent=1)
            print('%-34s %-26s %s  %.0fs  %s' % (m['id'], m['op'][:26], ('caught by ' + m['caught_by']) if m['caught_by'] else 'SURVIVED ALL',
                                                 m['stage2_s'], (m['runs'][-1]['sigs'][:1] if m['caught_by'] else '')), flush=True)
    finally:
        shutil.rmtree(scratch, ignore_errors=True)
    n = len(res)
    k = sum(1 for m in res if m['caught_by'])
    print('stage2: %d suite survivors, %d reported by a check, %d not reported' % (n, k, n - k))
    return 0


def main():
    a = sys.argv[1:]
    if not a:
        print(__doc__)
        return 2

    def opt(name, default=None):
        if name in a:
            return a[a.index(name) + 1]
        return default
    repo = opt('--repo', os.environ.get('VERIF_REPO', '/repo'))
    if a[0] == 'list':
        for m in mutants(repo):
            print(m['id'], m['op'], '|', m['new'].strip())
        return 0
    if a[0] == 'stage1':
        stage1(repo, opt('--out'), opt('--scratch', '/tmp/mutsweep'), int(opt('--jobs', '14')))
        return 0
    if a[0] == 'stage2':
        only = opt('--only')
        props = opt('--props')
        return stage2(repo, opt('--in'), opt('--out'), only.split(',') if only else None, props.split(',') if props else ORDER)
    print(__doc__)
    return 2


if __name__ == '__main__':
    sys.exit(main())
