"""Per-property plan table: which engine binaries run in which build variants, with which
logical budgets, and the texts that go into MANIFEST.json.  Pure data + tiny helpers."""

# variants that `./check setup` pre-builds for the thorough tier too (the others are built on
# first use by the thorough check itself)
SETUP_THOROUGH_VARIANTS = {'dbg', 'rel', 'miri', 'mirirel', 'asan', 'vg', 'dbg-std', 'rel-std', 'dbg-serde',
                           'rel-serde', 'vg-dbg', 'miri-serde'}

COST = {'miri': 100, 'mirirel': 100, 'miri-serde': 100, 'vg': 20, 'vg-dbg': 30, 'asan': 4}


def J(prop, label, variant, binname, args, shards, budget, timeout=1500, light=False, covp='', lsan=False, exh=False):
    if isinstance(args, str):
        args = args.split()
    if light and '--light' not in args:
        args = args + ['--light']
    return dict(prop=prop, label=label, variant=variant, bin=binname, args=['--prop', prop] + args, shards=shards,
                budget=budget, timeout=timeout, light=light, covp=covp, cost=COST.get(variant, 1), lsan=lsan, exh=exh)


def q(tier, quick, thorough):
    return quick if tier == 'quick' else thorough


NATIVE_ASSUME = [
    'the reference model (insertion-ordered Vec, linear search, Vec::remove) is itself correct; it shares no code with micromap',
    'instrumented element types report every new/clone/drop/eq/borrow/fmt to the ledger; element types without callbacks cannot reveal a read of a dead slot that has no observable consequence',
    'each worker process is single-threaded, so monitor state is updated atomically with the state it shadows',
    'only the executions listed under coverage were observed; nothing is claimed about histories, capacities or element types outside them',
]
SAN_ASSUME = [
    'Miri (Stacked Borrows), AddressSanitizer and valgrind memcheck report what they detect on the executed paths only; ASan/valgrind red zones do not see intra-object overflow, which is why canary frames and Miri bounds checks accompany them',
]


def hist_jobs(prop, tier, map_args, set_args, native=(120_000, 2_500_000), rel=(400_000, 10_000_000), miri=None, mirirel=None,
              asan=None, vg=None, engines=('map', 'set'), std=False):
    """Jobs of the two history engines for one property."""
    jobs = []
    ns = q(tier, 8, 16)
    for eng in engines:
        b = 'eng_' + eng
        a = map_args if eng == 'map' else set_args
        cp = eng + '/'
        jobs.append(J(prop, 'dbg/' + eng, 'dbg', b, a, ns // 2 if len(engines) > 1 else ns, q(tier, *native), covp=cp))
        jobs.append(J(prop, 'rel/' + eng, 'rel', b, a, ns // 2 if len(engines) > 1 else ns, q(tier, *rel), covp=cp))
        if std and tier == 'thorough':
            jobs.append(J(prop, 'rel-std/' + eng, 'rel-std', b, a, 4, q(tier, *rel), covp=cp))
        if miri:
            n, bq, bt, margs = miri
            jobs.append(J(prop, 'miri/' + eng, 'miri', b, margs[eng], n // len(engines), q(tier, bq, bt), light=True, covp=cp,
                          timeout=q(tier, 1500, 7200)))
        if mirirel:
            n, bq, bt, margs = mirirel
            jobs.append(J(prop, 'mirirel/' + eng, 'mirirel', b, margs[eng], n // len(engines), q(tier, bq, bt), light=True,
                          covp=cp, timeout=q(tier, 1500, 7200)))
        if asan and tier == 'thorough':
            n, bt, aargs = asan
            jobs.append(J(prop, 'asan/' + eng, 'asan', b, aargs[eng], n // len(engines), bt, covp=cp))
        if vg and tier == 'thorough':
            n, bt, vargs = vg
            jobs.append(J(prop, 'vg/' + eng, 'vg', b, vargs[eng], n // len(engines), bt, light=True, covp=cp, timeout=3600))
    return jobs


MAP_ROWS = {
    'C01': ['insert:', 'insert_key_value:', 'checked_insert:', 'get_mut:', 'index:', 'index_mut:', 'remove:', 'remove_entry:',
            'retain:', 'clear:', 'drain:', 'construct:Map::from(array):N>0', 'construct:Map::from_iter:N>0', 'zst-pairs'],
    'C02': ['insert:', 'remove:', 'retain:', 'clear:', 'drain:', 'into_iter:', 'into_keys:', 'into_values:', 'clone:', 'entry.', 'adaptor:drain:nth', 'adaptor:drain:step_by(2)', 'adaptor:into_iter:take', 'zst-pairs'],
    'C05': ['insert:', 'checked_insert:', 'remove:', 'retain:', 'entry.', 'index:', 'construct:Map::default:N=0', 'construct:Map::with_capacity:N>0',
            'construct:Map::from(array):N=0', 'construct:Map::from(array):N>0', 'construct:Map::from_iter:N>0', 'zst-pairs'],
    'C09': ['iter:', 'iter_mut:', 'keys:', 'values:', 'values_mut:', 'adaptor:iter:nth', 'adaptor:values_mut:fold', 'adaptor:iter_mut:count', 'adaptor:keys:step_by(2)', 'adaptor:values:last',
            'adaptor-on-exhausted:iter', 'adaptor-on-exhausted:keys', 'adaptor-on-exhausted:values', 'adaptor-on-exhausted:iter_mut', 'adaptor-on-exhausted:values_mut', 'zst-pairs'],
    'C10': ['drain:', 'into_iter:', 'into_keys:', 'into_values:', 'adaptor:drain:nth', 'adaptor:drain:skip', 'adaptor:into_iter:last', 'adaptor:into_keys:fold', 'adaptor:into_values:step_by(2)',
            'adaptor-on-exhausted:drain', 'adaptor-on-exhausted:into_iter', 'adaptor-on-exhausted:into_keys', 'adaptor-on-exhausted:into_values', 'zst-pairs'],
    'C12': ['insert:', 'insert_key_value:', 'checked_insert:', 'remove_entry:', 'entry.'],
    'C15': ['clone:', 'drop-copy', 'clone_from:target-longer', 'clone_from:target-shorter', 'clone_from:same-length', 'zst-pairs'],
    'C19': ['fmt:map-debug', 'fmt:map-alt-debug', 'fmt:map-display', 'fmt:Iter:', 'fmt:IterMut', 'fmt:Keys', 'fmt:Values:',
            'fmt:ValuesMut', 'fmt:IntoIter', 'fmt:IntoKeys', 'fmt:Drain', 'fmt:unit-valued-map'],
}
SET_ROWS = {
    'C07': ['insert:', 'replace:', 'remove:', 'take:', 'retain:', 'clear:', 'drain:', 'extend:', 'construct:Set::from(array):N>0', 'construct:Set::from_iter:N>0'],
    'C02': ['insert:', 'replace:', 'remove:', 'take:', 'retain:', 'clear:', 'drain:', 'into_iter:', 'clone:', 'extend:'],
    'C05': ['insert:', 'replace:', 'remove:', 'retain:', 'extend:', 'construct:Set::from(array):N=0', 'construct:Set::from(array):N>0'],
    'C09': ['set-iter:', 'adaptor:iter:nth', 'adaptor:iter:fold', 'adaptor-on-exhausted:iter'],
    'C10': ['drain:', 'into_iter:', 'adaptor:drain:nth', 'adaptor:into_iter:skip'],
    'C12': ['insert:', 'replace:', 'take:', 'extend:'],
    'C15': ['clone:', 'drop-copy', 'clone_from:target-longer', 'clone_from:target-shorter'],
    'C19': ['fmt:set-debug', 'fmt:set-alt-debug', 'fmt:set-display'],
}


def rows(prop, engines=('map', 'set')):
    r = []
    if 'map' in engines:
        r += ['map/' + x for x in MAP_ROWS.get(prop, [])]
    if 'set' in engines:
        r += ['set/' + x for x in SET_ROWS.get(prop, [])]
    return r


HIST_RULE = ('Iterators are consumed by plain next() loops and, in dedicated adaptor steps, through nth / skip / step_by / last / fold / count / for_each / take / by_ref. Cases are monitored steps of random operation histories (8..96 steps, workload profiles uniform / fill / '
             'churn-at-full / drain-down / revisit) started from an empty container, for capacities N in {0,1,2,3,4,8} and, for the Copy family, 40 and 70 (beyond the 32- and 64-slot marks) '
             '(thorough adds 5,16,32; one Copy history in 1200 runs at N = 300, slot numbers beyond one byte) and the element families named in each job (track = ledger-tracked, tiny = one-byte key with its own ==, word = four-byte key with its own == and a niche value, align = 64-/32-byte aligned pairs, odd = 3-byte key and 6-byte value of alignment 1, k12 = 12-byte key with its tag in the trailing bytes, path = PathBuf keys looked up by &Path written differently (unsized borrowed form whose == equates values of different length), large = 128-/512-byte tracked pairs); after every step a full observation sweep '
             'compares the real container with the reference model. A case is non-trivial when the pre-state is non-empty or '
             'the operation mutates.')

ALLCAPS = '0,1,2,3,4,5,8,16,32,40,70'


def _c01(tier):
    a = '--fam track,track,copy,raw,zst,nodrop,tiny,word,align,odd,k12,large,path' + (' --caps ' + ALLCAPS if tier == 'thorough' else '')
    m = '--fam track,track,raw,align,tiny --caps 0,1,2,3,4 --max-steps 48'
    raw = '--fam raw --caps 0,1,2,3,4,8 --no-forget'
    return hist_jobs('C01', tier, a, a, engines=('map',), std=True, miri=(16, 150, 1500, {'map': m}), asan=(8, 2_000_000, {'map': raw}))


def _c07(tier):
    a = '--fam track,track,copy,raw,zst,nodrop,tiny,word,align,odd,k12,large,path' + (' --caps ' + ALLCAPS if tier == 'thorough' else '')
    m = '--fam track,track,raw,align,tiny --caps 0,1,2,3,4 --max-steps 48'
    raw = '--fam raw --caps 0,1,2,3,4,8 --no-forget'
    return hist_jobs('C07', tier, a, a, engines=('set',), std=True, miri=(16, 150, 1500, {'set': m}), asan=(8, 2_000_000, {'set': raw}))


def _mem_hist(prop, tier, fam='track,copy', miri_steps=(260, 2500), vg=True, asan=True, mirirel=False, engines=('map', 'set')):
    a = '--fam ' + fam + (' --caps ' + ALLCAPS if tier == 'thorough' else '')
    m = '--fam track,track,raw,align,tiny --caps 0,1,2,3,4 --max-steps 48'
    margs = {'map': m, 'set': m}
    raw = '--fam raw --caps 0,1,2,3,4,8 --no-forget'
    return hist_jobs(prop, tier, a, a, engines=engines,
                     miri=(16, miri_steps[0], miri_steps[1], margs),
                     mirirel=(16, miri_steps[0], miri_steps[1], margs) if mirirel else None,
                     asan=(8, 3_000_000, {'map': raw, 'set': raw}) if asan else None,
                     vg=(8, 150_000, {'map': raw, 'set': raw}) if vg else None)


def _simple_hist(prop, tier, fam='track,copy', engines=('map', 'set'), miri=None, asan=True):
    a = '--fam ' + fam + (' --caps ' + ALLCAPS if tier == 'thorough' else '')
    raw = '--fam raw --caps 0,1,2,3,4,8 --no-forget'
    mm = None
    if miri:
        m = '--fam track,track,align,tiny --caps 0,1,2,3,4 --max-steps 48'
        mm = (16, miri[0], miri[1], {'map': m, 'set': m})
        if tier == 'quick' and not miri[2]:
            mm = None
    # thorough: the same histories on heap-owning String / Box elements under AddressSanitizer (a read of a
    # destroyed or never-written slot is a real use-after-free / wild read there, whatever the monitors see)
    return hist_jobs(prop, tier, a, a, engines=engines, miri=mm, asan=(8, 2_000_000, {'map': raw, 'set': raw}) if asan else None)


PLANS = {}


def plan(pid, **kw):
    kw.setdefault('level', 'exploration')
    kw.setdefault('assumptions', NATIVE_ASSUME)
    PLANS[pid] = kw


plan('C01', jobs=_c01, rule=HIST_RULE, required=rows('C01', ('map',)),
     title='Map vs reference dictionary',
     technique='runtime monitoring: reference-model monitor (lock-step dictionary) with a full observation sweep after every step of randomized operation histories, debug and release builds',
     level_text='Exploration: every return value, len/is_empty, lookups by key and by borrowed form for every key of the universe, the iteration multiset and panic/no-panic of indexing are compared with an independent reference dictionary after every step of millions of random histories (all fill levels, N in {0..8,16,32}, three element families, dbg+rel, std feature in the thorough tier). Held means: no divergence on the executions listed in the evidence.',
     level_note='Trusted: the reference model, the instrumented element types, rustc/std. Finite sample of histories; 32-bit payloads; key universe N+3 classes.',
     design_ref='DESIGN.md section 3, C01')

plan('C07', jobs=_c07, rule=HIST_RULE, required=rows('C07', ('set',)),
     title='Set vs reference set',
     technique='runtime monitoring: reference-model monitor (lock-step set) with a full observation sweep after every step of randomized Set histories, debug and release builds',
     level_text='Exploration: every Set result (insert/replace/contains/get/remove/take/retain/clear/drain/extend), membership by element and by borrowed form, len and iteration are compared with an independent reference set after every step of random histories; panic iff a new element meets a full set.',
     level_note='Trusted: the reference model, the instrumented element types. Finite sample of histories.',
     design_ref='DESIGN.md section 3, C07')

def _c02(tier):
    jobs = _mem_hist('C02', tier, fam='track,large,zst')
    # "however the containers are used": also when an element's own Clone / Drop / == unwinds in the middle of an
    # operation.  The fault engine's ledger findings (double destruction, destruction or use of a slot without a
    # live element) are C02's statement; leaks on such a panic are not counted (C04 tolerates them, C02 runs ignore them).
    jobs += [
        J('C02', 'dbg/fault', 'dbg', 'eng_panic', '--fam track --space 0,1,2,3', 4, 1, covp='pf/'),
        J('C02', 'rel/fault', 'rel', 'eng_panic', '--fam track --space 0,1,2,3', 4, 1, covp='pf/'),
    ]
    if tier == 'thorough':
        jobs += [
            J('C02', 'rel/fault-big', 'rel', 'eng_panic', '--fam track --space 0 --big 1000000', 8, 1, covp='pf/'),
            J('C02', 'miri/fault', 'miri', 'eng_panic', '--fam track --space 0,1,2 --stride 3', 16, 1, light=True, covp='pf/', timeout=7200),
        ]
    return jobs


plan('C02', jobs=_c02, rule=HIST_RULE + ' Consuming iterators and drains are abandoned at every cut point j in 0..=len+1 by drop or mem::forget. Fault jobs (pf/ rows): every operation of the fault engine x every slot layout of N<=3 x every callback position of an injected panic, ledger findings only.',
     required=rows('C02'), assumptions=NATIVE_ASSUME + SAN_ASSUME,
     title='exactly-once destruction (ownership ledger)',
     technique='runtime monitoring: ownership ledger (conservation + exactly-once monitor over new/clone/drop/use events of instrumented elements) plus Miri, AddressSanitizer and valgrind memcheck on the same workloads',
     level_text='Exploration: a per-object ledger watches every construction, clone, drop and use of instrumented keys/values during random Map/Set histories in which drains and consuming iterators are abandoned at every cut point (drop or mem::forget); balance is checked after every step and after the final drop. The same workloads run under Miri in the quick tier and additionally under ASan and valgrind (heap-owning String/Box elements) in the thorough tier.',
     level_note='Trusted: ledger + instrumented elements; Miri/ASan/valgrind as detectors on executed paths. Miri depth is thousands of steps, native depth millions.',
     design_ref='DESIGN.md section 3, C02')

def _c05(tier):
    jobs = _simple_hist('C05', tier, fam='track,track,copy,zst,tiny,word,align,odd,k12,large,path', miri=(150, 1500, True))
    # deserialisation is an operation too (feature serde): payloads that micromap did not write - sequences of
    # pairs / elements with repeats, with and without an announced length - must leave a well-formed container
    jobs.append(J('C05', 'dbg/serde-foreign', 'dbg-serde', 'eng_serde', '', 4, q(tier, 12_000, 600_000), covp='sd/'))
    jobs.append(J('C05', 'rel/serde-foreign', 'rel-serde', 'eng_serde', '', 4, q(tier, 24_000, 2_000_000), covp='sd/'))
    return jobs


plan('C05', jobs=_c05, rule=HIST_RULE + ' The well-formedness oracle uses no model: it only observes len/is_empty/capacity/iter/get. The sd/ jobs (feature serde) decode payloads micromap did not write (repeated keys, with and without a length prefix, recorded streams and bincode) and observe the decoded container the same way.',
     required=rows('C05') + ['sd/foreign-payload:map:repeated-keys', 'sd/foreign-payload:set:repeated-elements'],
     title='well-formedness after every step',
     technique='runtime monitoring: model-free invariant monitor (keys pairwise unequal, len == iteration count, is_empty, len <= capacity, every yielded key looks up its own value) evaluated at every quiescent point, including after container-raised panics',
     level_text='Exploration: a model-free well-formedness observer runs after every step of the Map, Set and entry histories, including steps that ended in a panic raised by the container (overflow, missing index).',
     level_note='Uniqueness is judged with the lawful == of the instrumented keys. Finite sample of histories.',
     design_ref='DESIGN.md section 3, C05')

plan('C09', jobs=lambda t: _simple_hist('C09', t, fam='track,track,copy,zst,tiny,align,odd,large', miri=(150, 1500, True)), rule=HIST_RULE + ' An iterator probe walks one borrowing iterator kind completely, checking len/size_hint/count before every step, a clone at a random step, fusedness, a second traversal and write visibility.',
     required=rows('C09'),
     title='borrowing iterators',
     technique='runtime monitoring: per-step exactness monitor on iter/iter_mut/keys/values/values_mut/Set::iter over states reached by random histories (identity-level comparison through ledger ids)',
     level_text='Exploration: on states reached by random histories every borrowing iterator kind is walked completely; yielded identities must be a permutation of the stored entries; len/size_hint/count are compared before every step; clones, fusedness, order stability and visibility of writes through iter_mut/values_mut are checked. Thorough adds Miri (Stacked Borrows on the &mut reborrows).',
     level_note='Finite sample of states; iterator kinds enumerated completely.',
     design_ref='DESIGN.md section 3, C09')

plan('C10', jobs=lambda t: _mem_hist('C10', t, fam='track,track,copy,zst,tiny,align,odd,large', miri_steps=(200, 2000), asan=True, vg=True), rule=HIST_RULE + ' Every drain / consuming iterator is cut at a random j in 0..=len+1 and then dropped or forgotten.',
     required=rows('C10'), assumptions=NATIVE_ASSUME + SAN_ASSUME,
     title='consuming iterators and drain',
     technique='runtime monitoring: identity-level permutation monitor + exact-length monitor on into_iter/into_keys/into_values/drain (Map and Set) cut at every point, ledger for the non-yielded remainder, Miri on the same workload',
     level_text='Exploration: consuming iterators and drains are driven over states reached by random histories, cut at every number of items, then dropped or forgotten; yielded identities, exact len/size_hint, fusedness, emptiness and reusability after a dropped drain are checked; Miri in quick, ASan/valgrind in thorough.',
     level_note='For a forgotten drain only safety and well-formedness are demanded (the property promises nothing more).',
     design_ref='DESIGN.md section 3, C10')

plan('C12', jobs=lambda t: _simple_hist('C12', t, fam='track,track,large,nodrop,tiny,word,align,odd,k12,path', miri=(150, 1500, True)), rule=HIST_RULE + ' Keys of one class carry distinct tags, so the stored key object is identifiable; half of the inserting operations reuse a present class with a fresh tag.',
     required=rows('C12'),
     title='stored-key identity',
     technique='runtime monitoring: identity (tag + ledger id) sweep of the stored key object after every step, against a model that tracks which key object must be stored',
     level_text='Exploration: with equal-but-distinguishable keys the model tracks which key object must be stored after insert / checked_insert / insert_key_value / Set::insert / Set::replace / entry API; every sweep compares the tag and ledger id exposed by iteration, get_key_value, Set::get, and the keys returned by remove_entry / take / replace / insert_key_value.',
     level_note='Finite sample of histories; identity observable only for the tracked families.',
     design_ref='DESIGN.md section 3, C12')

plan('C15', jobs=lambda t: _simple_hist('C15', t, fam='track,track,large,nodrop,copy,zst,word,align,odd', miri=(150, 1500, True)), rule=HIST_RULE + ' A fork step clones the container inside a ledger event window; both copies then continue with independent random suffixes and are swept after every step.',
     required=rows('C15'),
     title='clone',
     technique='runtime monitoring: ledger event window around clone() (exactly one Clone event per stored key and value, nothing else), then twin histories with cross-talk sweeps of both copies after every step',
     level_text='Exploration: random histories fork a clone inside a ledger event window (exactly one clone per stored key and per stored value, no other event), compare clone == original both ways, then mutate or drop either copy while sweeping both after every step.',
     level_note='Finite sample of states and suffixes.',
     design_ref='DESIGN.md section 3, C15')

def _c19(tier):
    jobs = _simple_hist('C19', tier, fam='track,track,copy,raw,zst,tiny,align,odd', miri=(150, 1500, True))
    jobs += [
        J('C19', 'dbg/algebra', 'dbg', 'eng_algebra', '--universe 4', 4, 1, covp='alg/'),
        J('C19', 'rel/algebra', 'rel', 'eng_algebra', '--universe 4', 4, 1, covp='alg/'),
    ]
    return jobs


plan('C19', jobs=_c19, rule=HIST_RULE + ' A formatting probe renders the container or one iterator kind after j consumed items and compares with strings built independently. The set-algebra engine additionally renders union / intersection / difference / symmetric_difference / difference_ref at the first, middle and last-but-one consumption prefix on all layout pairs over a 4-class universe for twelve capacity pairs (N = M, N > M and N < M).',
     required=rows('C19') + ['alg/union', 'alg/intersection', 'alg/difference', 'alg/symmetric_difference', 'alg/difference_ref'], floors={'iterator_debug_renderings': 1000}, assumptions=NATIVE_ASSUME + SAN_ASSUME,
     title='Debug / Display',
     technique='runtime monitoring: rendering oracle (expected strings built by hand and by std debug_map/debug_set from the independently observed entry sequence) at every consumption prefix of every iterator kind; Miri for the raw-slot Debug impls',
     level_text='Exploration: Debug (plain and alternate) and Display of Map/Set and the Debug of every iterator/drain kind after every consumption prefix are compared with independently built expectations on states reached by random histories; Miri watches the iterators that re-interpret raw slots.',
     level_note='For iterator Debug only the multiset of listed entries is compared (order and bracket style are not part of the property).',
     design_ref='DESIGN.md section 3, C19')


def _c04(tier):
    jobs = [
        J('C04', 'dbg/exhaustive', 'dbg', 'eng_panic', '--fam track --space 0,1,2,3,4', 8, 1, exh=True),
        J('C04', 'rel/exhaustive', 'rel', 'eng_panic', '--fam track --space 0,1,2,3,4', 8, 1, exh=True),
        J('C04', 'rel/random-big', 'rel', 'eng_panic', '--fam track --space 0 --big %d' % q(tier, 60_000, 3_000_000), 8, 1),
        J('C04', 'dbg/heap', 'dbg', 'eng_panic', '--fam heap --space 0,1,2,3', 4, 1),
        # elements WITHOUT drop glue whose Clone / == unwind (paths a container takes only for !needs_drop types)
        J('C04', 'dbg/nodrop', 'dbg', 'eng_panic', '--fam nodrop --space 0,1,2,3', 4, 1),
        J('C04', 'rel/nodrop', 'rel', 'eng_panic', '--fam nodrop --space 0,1,2,3,4', 4, 1),
        # 640-byte pairs: code paths that depend on the size of the element type
        J('C04', 'rel/large', 'rel', 'eng_panic', '--fam large --space 0,1,2 --big %d' % q(tier, 4000, 200000), 4, 1),
    ]
    if tier == 'quick':
        jobs.append(J('C04', 'miri/N<=2', 'miri', 'eng_panic', '--fam track --space 0,1,2 --stride 3', 16, 1, light=True))
    else:
        jobs += [
            J('C04', 'miri/N<=3', 'miri', 'eng_panic', '--fam track --space 0,1,2,3', 16, 1, light=True, timeout=7200, exh=True),
            J('C04', 'miri/heap', 'miri', 'eng_panic', '--fam heap --space 0,1,2', 12, 1, light=True, timeout=7200),
            J('C04', 'asan/heap', 'asan', 'eng_panic', '--fam heap --space 0,1,2,3,4 --big 400000', 8, 1),
            J('C04', 'vg/heap', 'vg', 'eng_panic', '--fam heap --space 0,1,2,3', 12, 1, light=True, timeout=7200),
            J('C04', 'dbg-std/exhaustive', 'dbg-std', 'eng_panic', '--fam track --space 0,1,2,3,4', 4, 1),
        ]
    return jobs


plan('C04', jobs=_c04, level='fault_enumeration',
     rule='A case is (container state, operation, argument choice): states are ALL ordered arrangements of all subsets of a 4-class key universe that fit into N for N in 0..=4 (1, 5, 17, 41, 65 slot layouts), operations are 55 Map and 33 Set operations (incl. consuming iterators and drains driven through for_each / fold / last / nth / skip with faulting closures) that can call user code, arguments are the key stored first / in the middle / last and an absent key (set-algebra operations additionally range over four second operands). Every case is first run unfaulted to count its user-callback ticks n, then re-run n times with a single-shot panic injected at tick k = 1..n (K::eq, Q::eq, Borrow, K::clone, V::clone, K::drop, V::drop, V::default, V::eq, closures, source-iterator next, fmt); after each unwinding every container involved is validated, exercised and dropped under the ownership ledger. One evaluation = one such run; a faulted run is non-trivial and distinct by (state, operation, argument, k). Random larger states (N = 8, 16) are added on top.',
     required=['fault:clone:K::clone', 'fault:clone:V::clone', 'fault:clear:V::drop', 'fault:retain(some):K::drop', 'fault:retain(some):closure',
               'fault:insert:K::eq', 'fault:from_iter:source.next', 'fault:set.sub:K::clone', 'fault:set.extend:source.next', 'fault:entry.or_insert_with:closure',
               'fault:remove(q):Q::eq', 'fault:remove(q):borrow', 'fault:eq(equal):V::eq', 'fault:fmt.debug:fmt', 'fault:drop(map):K::drop',
               'fault:into_iter.take1.drop:V::drop', 'fault:drain.take1.drop:K::drop', 'fault:entry.or_default:V::default', 'fault:set.retain(some):K::drop',
               'fault:into_iter.for_each:closure', 'fault:into_iter.last:V::drop', 'fault:drain.for_each:closure', 'fault:into_values.for_each:K::drop', 'fault:set.into_iter.for_each:closure',
               'random-big:map', 'random-big:set'],
     floors={'faults_fired': 1000},
     exhaustive_subspace='all 129 slot layouts over a 4-class universe for N in 0..=4 x 88 operations x up to 4 key choices x every callback tick (dbg and rel); Miri: the N <= 2 part sampled 1-in-3 by seed in the quick tier, the complete N <= 3 part in the thorough tier',
     assumptions=NATIVE_ASSUME + SAN_ASSUME + ['exactly one panic is injected per run; panics in Drop are injected only when the thread is not already unwinding (a double panic aborts by language rules)',
                  'leaks after a user panic are tolerated by the property and only counted'],
     title='panic safety (fault enumeration)',
     technique='runtime monitoring with fault injection: single-shot panic enumerated over every user-callback tick of every operation on an exhaustive small-state space, ownership ledger + well-formedness/usability monitor on every survivor, Miri/ASan/valgrind on the same driver',
     level_text='Fault enumeration: for every (state, operation, argument) of the exhaustive small-scope space the callback trace is recorded and a panic is injected at every position of it, one per run; the ledger listens during unwinding and during the validation, exercise and drop of every surviving container, including partially built clones/collections. Quick runs the whole space in dbg and rel (about 10^5 faulted runs each), heap-owning elements natively, random N=8/16 states, and a seed-chosen third of the N<=2 space under Miri; thorough adds the full N<=3 space under Miri, heap elements under Miri/ASan/valgrind and the std feature.',
     level_note='Trusted: fault driver (deterministic tick counting), ledger, instrumented elements. States beyond 4 classes / N > 4 are sampled, not enumerated. A run in which an armed fault does not fire counts as inconclusive.',
     design_ref='DESIGN.md section 3, C04')


def _c08(tier):
    jobs = [
        J('C08', 'dbg/u4', 'dbg', 'eng_algebra', '--universe 4 --random %d' % q(tier, 3000, 60000), 8, 1, exh=True),
        J('C08', 'rel/u4', 'rel', 'eng_algebra', '--universe 4 --random %d' % q(tier, 9000, 300000), 8, 1, exh=True),
    ]
    jobs.append(J('C08', 'miri/u3', 'miri', 'eng_algebra', '--tiny', 16, 1, light=True, timeout=q(tier, 1500, 7200)))
    if tier == 'thorough':
        jobs += [
            J('C08', 'rel/u5', 'rel', 'eng_algebra', '--universe 5', 16, 1, exh=True, timeout=3600),
        ]
    return jobs


plan('C08', jobs=_c08,
     rule='A case is one operation (union, intersection, difference, symmetric_difference walked at EVERY consumption prefix with size_hint / count / fold / Debug probes on clones; difference_ref; `&a - &b`; is_subset / is_superset / is_disjoint) on one ordered pair of sets (A, B). Pairs: ALL ordered arrangements of all subsets of a 4-class universe for both operands (65 x 65 layouts when both capacities are >= 4) for the capacity pairs (4,4) (4,8) (8,4) (0,0) (0,4) (4,0) (1,2) (2,1) (2,4) (4,2) (3,3) (5,4); thorough adds the 5-class universe (326 x 326) for (5,5) and (5,8); random pairs for capacities up to 32 on top. A pair is non-trivial when at least one operand is non-empty; distinct pairs are counted by (N, M, both slot orders).',
     required=['zst', 'union', 'intersection', 'difference', 'symmetric_difference', 'difference_ref', 'sub', 'is_subset:true', 'is_subset:false',
               'is_superset:true', 'is_superset:false', 'is_disjoint:true', 'is_disjoint:false', 'random-pair'],
     exhaustive_subspace='all ordered layout pairs over a 4-class universe (thorough: 5-class) for the listed capacity pairs, every consumption prefix of every lazy iterator',
     title='set algebra',
     technique='runtime monitoring: list-level oracle (yielded list vs mathematical result, so repeats are visible), per-prefix size_hint/count/fold/fusedness probes on iterator clones, address/identity monitor for the yielded references, operand fingerprints before/after; bounded-exhaustive pair space',
     level_text='Exploration with an exhaustive sub-space: every ordered pair of slot layouts over a small universe is run through every set-algebra operation; yielded lists are compared with the mathematical result, every consumption prefix is probed (size_hint brackets, count, fold = stepping, None after the end, Debug lists the remainder), yielded references must be the left operand\'s own elements (intersection, difference) at addresses inside the operand, predicates must equal their truth value and operands must be unchanged.',
     level_note='Universe of 4 (thorough 5) classes is exhaustive; larger sets are sampled. Trusted: the list arithmetic in the oracle.',
     design_ref='DESIGN.md section 3, C08')


def _c13(tier):
    jobs = [
        J('C13', 'dbg/u4', 'dbg', 'eng_disjoint', '--random %d' % q(tier, 4000, 200000), 8, 1, exh=True),
        J('C13', 'rel/u4', 'rel', 'eng_disjoint', '--random %d' % q(tier, 8000, 1000000), 8, 1, exh=True),
        J('C13', 'miri/u3', 'miri', 'eng_disjoint', '--tiny --maxj %d' % q(tier, 2, 3), 16, 1, light=True, timeout=q(tier, 1500, 7200), exh=(tier == 'thorough')),
    ]
    if tier == 'thorough':
        jobs.append(J('C13', 'asan/u4', 'asan', 'eng_disjoint', '--random 200000', 8, 1))
    return jobs


plan('C13', jobs=_c13,
     rule='A case is one call of get_disjoint_mut with one key tuple on one map state. States: ALL ordered arrangements of all subsets of a 4-class universe that fit N, for N in {0,1,2,3,4,8}. Tuples: ALL tuples of length J = 0..=4 over the five keys {1,2,3,4, an always-absent key} (present and absent keys, with and without repeats, every order), each given once in the borrowed form and once as keys; random maps with N in {8,16} and tuples of length 5 and 8, and maps with N = 300 (requested keys stored in slots >= 256) with tuples of length 2, 3, 65 and 70 on top. Under Miri: 3-class universe, N in {0,2,3}, J <= 2 (quick) / J <= 3 (thorough). Non-trivial: J >= 1; distinct by (N, slot order, tuple, form).',
     required=['zst', 'get_disjoint_mut(q):J=0', 'get_disjoint_mut(q):J=1', 'get_disjoint_mut(q):J=2:ok', 'get_disjoint_mut(q):J=2:panic', 'get_disjoint_mut(q):J=3:ok',
               'get_disjoint_mut(q):J=4:ok', 'get_disjoint_mut(q):J=4:panic', 'get_disjoint_mut(k):J=3:ok', 'get_disjoint_mut(k):J=4:panic', 'get_disjoint_mut(q):J=8', 'random-long-tuple', 'big-map(N=300):slots>=256', 'get_disjoint_mut(q):J=65', 'get_disjoint_mut(k):J=70'],
     exhaustive_subspace='all slot layouts over a 4-class universe for N in {0,1,2,3,4,8} x all key tuples of length 0..=4 over 5 keys x {borrowed form, key}',
     assumptions=NATIVE_ASSUME + SAN_ASSUME,
     title='get_disjoint_mut',
     technique='runtime monitoring: per-position oracle against get_mut (value identity and address), pairwise address-distinctness monitor, write-visibility monitor, panic oracle for equal present keys, on a bounded-exhaustive (state x tuple) space; Miri Stacked Borrows on the simultaneous use of the returned &mut references',
     level_text='Exploration with an exhaustive sub-space: every key tuple of length 0..=4 (and sampled tuples of length 5 and 8) is requested on every slot layout; each position must equal what get_mut returns (object identity and address), returned addresses must be pairwise distinct and inside the map, writes through all references at once must be visible exactly at the requested keys, two equal present keys must panic and pairwise different keys must not. Miri checks the aliasing model while the references are used together.',
     level_note='Equal ABSENT keys: either outcome is accepted (the property is silent). Universe of 4 classes is exhaustive; longer tuples sampled.',
     design_ref='DESIGN.md section 3, C13')


def _c18(tier):
    a = '--fam track,track,copy,large,zst,tiny,word,odd,k12,path' + (' --caps ' + ALLCAPS if tier == 'thorough' else '')
    m = '--fam track --caps 0,1,2,3,4 --max-steps 48'
    jobs = hist_jobs('C18', tier, a, a, engines=('map',), miri=(8, 200, 2000, {'map': m}), mirirel=(8, 200, 2000, {'map': m}),
                     asan=(8, 3_000_000, {'map': '--fam raw,track --caps 0,1,2,3,4,8 --no-forget'}),
                     vg=(8, 150_000, {'map': '--fam raw --caps 0,1,2,3,4,8 --no-forget'}))
    jobs += [
        J('C18', 'dbg/disjoint', 'dbg', 'eng_disjoint', '--random %d' % q(tier, 4000, 200000), 4, 1, exh=True, covp='dj/'),
        J('C18', 'rel/disjoint', 'rel', 'eng_disjoint', '--random %d' % q(tier, 8000, 1000000), 4, 1, exh=True, covp='dj/'),
        J('C18', 'miri/disjoint', 'miri', 'eng_disjoint', '--tiny --maxj %d' % q(tier, 2, 3), 8, 1, light=True, timeout=q(tier, 1500, 7200), covp='dj/'),
        J('C18', 'mirirel/disjoint', 'mirirel', 'eng_disjoint', '--tiny --maxj %d' % q(tier, 2, 3), 8, 1, light=True, timeout=q(tier, 1500, 7200), covp='dj/'),
        # "uphold every other guarantee (ownership ...)" includes panic safety: a single-shot panic at every callback tick of insert_unchecked
        J('C18', 'dbg/fault', 'dbg', 'eng_panic', '--fam track --only-op insert_unchecked --space 0,1,2,3,4 --big %d' % q(tier, 20000, 2000000), 2, 1, covp='pf/'),
        # a key comparison that unwinds in the middle of a batch lookup, then batch lookups on the survivor
        J('C18', 'dbg/fault-disjoint', 'dbg', 'eng_panic', '--fam track --only-op get_disjoint_mut --space 0,1,2,3,4', 2, 1, covp='pd/'),
        J('C18', 'rel-std/fault-disjoint', 'rel-std', 'eng_panic', '--fam track --only-op get_disjoint_mut --space 0,1,2,3,4', 2, 1, covp='pd/'),
        J('C18', 'rel/fault', 'rel', 'eng_panic', '--fam track --only-op insert_unchecked --space 0,1,2,3,4 --big %d' % q(tier, 20000, 2000000), 2, 1, covp='pf/'),
    ]
    return jobs


plan('C18', jobs=_c18,
     rule=HIST_RULE + ' In these histories plain insert is replaced by insert_unchecked whenever the documented precondition holds (map not full, or key present); when it does not hold the call is skipped, never made. Second engine: a single-shot panic injected at every user-callback tick of insert_unchecked (inside its contract) on all slot layouts over 4 classes for N in 0..=4 and on random larger states, survivors validated under the ledger. Third engine: get_disjoint_unchecked_mut on ALL pairwise-different key tuples of length 0..=4 over 5 keys on all slot layouts over a 4-class universe (N in {0,1,2,3,4,8}), compared position by position with get_mut.',
     required=['map/zst-pairs', 'map/insert_unchecked:hit-first', 'map/insert_unchecked:hit-last', 'map/insert_unchecked:miss:partial', 'map/insert_unchecked:hit-middle:full',
               'dj/get_disjoint_unchecked_mut:J=2', 'dj/get_disjoint_unchecked_mut:J=4', 'dj/get_disjoint_unchecked_mut:J=65', 'dj/big-map(N=300)', 'pf/fault:insert_unchecked:K::eq', 'pf/fault:insert_unchecked:K::drop', 'pf/fault:insert_unchecked:V::drop'],
     exhaustive_subspace='get_disjoint_unchecked_mut: all slot layouts over a 4-class universe x all pairwise-different key tuples of length 0..=4',
     assumptions=NATIVE_ASSUME + SAN_ASSUME + ['the harness calls the unsafe functions only inside their documented precondition; outside it any behaviour is the caller\'s fault'],
     title='unsafe fast paths inside their contract',
     technique='runtime monitoring: reference-model + ledger + canary monitors on histories in which insert is replaced by insert_unchecked inside its contract (debug, release, Miri with and without debug assertions); per-position oracle for get_disjoint_unchecked_mut on the exhaustive distinct-tuple space',
     level_text='Exploration: (1) random Map histories where every insert whose precondition holds is made through insert_unchecked; return value, contents, stored-key identity, ownership (ledger), canaries and well-formedness are checked after every step against the same model that decides insert; debug, release, Miri (dev profile and the debug-assertions-off profile). (2) get_disjoint_unchecked_mut on every pairwise-different key tuple: positions, addresses and write visibility must be those of get_mut / get_disjoint_mut.',
     level_note='Nothing is claimed outside the documented preconditions. Finite sample of histories.',
     design_ref='DESIGN.md section 3, C18')


def _c14(tier):
    jobs = [
        J('C14', 'dbg/u4', 'dbg', 'eng_eq', '--random %d' % q(tier, 4000, 400000), 8, 1, exh=True),
        J('C14', 'rel/u4', 'rel', 'eng_eq', '--random %d' % q(tier, 20000, 2000000), 8, 1, exh=True),
    ]
    jobs.append(J('C14', 'miri/u3', 'miri', 'eng_eq', '--tiny', 8, 1, light=True, timeout=q(tier, 1500, 7200)))
    # operands produced by deserialisation (feature serde), incl. payloads with repeated keys
    jobs.append(J('C14', 'dbg/serde-operands', 'dbg-serde', 'eng_serde', '', 4, q(tier, 12_000, 600_000), covp='sd/'))
    return jobs


plan('C14', jobs=_c14,
     rule='A case is one ordered pair (a, b) of containers, compared as a == b and b == a, and as a != b and b != a. Map states: ALL ordered arrangements of all subsets of a 4-class universe with 2 possible values per class (633 states when the capacity is >= 4); set states: all 65 layouts. Every ordered pair of states is compared for the capacity pairs (4,4) (4,8) (8,4) (2,4) (4,3) (0,4) (4,0) (0,0) (1,1) (2,2) (3,3) for maps and (4,4) (4,8) (8,4) (2,4) (0,3) (1,1) (2,2) (3,3) for sets, with tracked and Copy elements; so pairs differing only in one value, only in one key, only in length, and equal contents in different slot orders all occur by construction (counted per kind in coverage_matrix). Random pairs reached by two different operation histories on top. Non-trivial: at least one operand non-empty.',
     required=['zst:equal', 'zst:unequal', 'zst-values', 'big-pair:equal', 'big-pair:unequal', 'equal:same-order', 'equal:different-order', 'unequal:one-value', 'unequal:one-key', 'unequal:length', 'unequal:values', 'unequal:keys',
               'set:equal:different-order', 'set:unequal:one-key', 'set:unequal:length', 'histories:equal', 'histories:unequal'],
     exhaustive_subspace='all ordered pairs of (slot order x values) states over a 4-class universe with 2 values per class, for the listed capacity pairs, Map and Set',
     title='extensional equality',
     technique='runtime monitoring: extensional-equality oracle evaluated on a bounded-exhaustive space of ordered container pairs (both directions, reflexivity, operand fingerprints and ledger event counts before/after)',
     level_text='Exploration with an exhaustive sub-space: every ordered pair of small containers (all slot orders, two values per key, capacity pairs incl. N != M and N = 0) is compared both ways against the model\'s extensional equality; reflexivity is checked on every state; operands must be bit-for-bit unchanged and == must construct, clone or destroy nothing.',
     level_note='Universe of 4 classes x 2 values is exhaustive; larger containers are sampled through random histories. Value equality is the value type\'s own == (no NaN-like values).',
     design_ref='DESIGN.md section 3, C14')


def _c16(tier):
    jobs = [
        J('C16', 'dbg/u4', 'dbg', 'eng_bulk', '--maxlen 6 --random %d' % q(tier, 3000, 300000), 8, 1, exh=True),
        J('C16', 'rel/u4', 'rel', 'eng_bulk', '--maxlen %d --random %d' % (q(tier, 6, 7), q(tier, 9000, 1500000)), 8, 1, exh=True),
    ]
    jobs.append(J('C16', 'miri/u3', 'miri', 'eng_bulk', '--tiny', 8, 1, light=True, timeout=q(tier, 1500, 7200)))
    return jobs


plan('C16', jobs=_c16,
     rule='A case is one item sequence through one bulk entry point (Map collect, Map From<[_;N]>, Set collect, Set From<[_;N]>, Set Extend<T> onto an empty / partial / full set, Set Extend<&T>). Sequences: ALL sequences of length 0..=6 (thorough 7) over a 4-class universe for N in {0,1,2,3,4} (every repetition pattern; lengths below, at and above N; fewer, exactly and more than N distinct keys), random sequences of length up to 3N+2 for N in {5,8,16}. Non-trivial: the sequence is non-empty; distinct by (N, sequence, start state).',
     required=['zst', 'Map::from_iter:plain', 'Map::from_iter:repeats', 'Map::from_iter:longer-than-N-but-fits', 'Map::from_iter:overflows', 'Map::from(array):repeats',
               'Set::from_iter:longer-than-N-but-fits', 'Set::from_iter:overflows', 'Set::from(array):repeats', 'Set::extend:repeats:onto-partial',
               'Set::extend:overflows:onto-partial', 'Set::extend:longer-than-N-but-fits:onto-full', 'Set::extend(&T):fits', 'Set::extend(&T):overflows', 'random-sequence'],
     exhaustive_subspace='all item sequences of length 0..=6 over 4 classes for N in 0..=4, every bulk entry point',
     title='bulk construction',
     technique='runtime monitoring: fold-of-single-inserts model with stored-key tags, literal twin container filled by single inserts, recording source iterator (pull log), ledger balance; bounded-exhaustive sequence space',
     level_text='Exploration with an exhaustive sub-space: every short item sequence is pushed through every bulk entry point; the result must equal the fold of single inserts (contents, first key object kept, last value wins), a literally one-by-one filled twin, panic exactly at the first new key beyond N distinct ones (and not for repeats), the source must be pulled exactly once per item front to back with a single final None (and not beyond the overflowing item), and every item object must end up stored or destroyed exactly once.',
     level_note='Sequences longer than 7 and N > 4 are sampled.',
     design_ref='DESIGN.md section 3, C16')


def _c11(tier):
    jobs = [
        J('C11', 'dbg/u4', 'dbg', 'eng_entry', '--random %d' % q(tier, 20000, 3000000), 8, 1, exh=True),
        J('C11', 'rel/u4', 'rel', 'eng_entry', '--random %d' % q(tier, 60000, 10000000), 8, 1, exh=True),
        J('C11', 'miri/u3', 'miri', 'eng_entry', '--tiny', 16, 1, light=True, timeout=q(tier, 1500, 7200)),
        # the entry API as an operation of random histories on every element family, judged against the
        # reference model of the direct operations (h/ rows)
        J('C11', 'dbg/hist', 'dbg', 'eng_map', '--fam track,track,copy,zst,nodrop,tiny,word,odd,k12,align,large', 8, q(tier, 60_000, 1_500_000), covp='h/'),
        J('C11', 'rel/hist', 'rel', 'eng_map', '--fam track,track,copy,zst,nodrop,tiny,word,odd,k12,align,large', 8, q(tier, 200_000, 6_000_000), covp='h/'),
    ]
    if tier == 'thorough':
        jobs.append(J('C11', 'mirirel/u3', 'mirirel', 'eng_entry', '--tiny', 16, 1, light=True, timeout=7200))
    return jobs


plan('C11', jobs=_c11,
     rule='A case is (map state, key, entry method chain). States: ALL slot layouts over a 4-class universe for N in {0,1,2,3,4,8}; keys: every stored key (so first / middle / last slot) and an absent key; chains: 25 enumerated method chains of length 1..3 (three of them with a closure that unwinds) covering key, or_insert, or_insert_with, or_insert_with_key, or_default, and_modify (once and twice), every OccupiedEntry method (key/get/get_mut/insert/remove/remove_entry/into_mut) and every VacantEntry method (key/into_key/insert), alone and combined. Twin A runs the chain, twin B the direct operations; random larger states (N = 8, 16) on top. Every case is non-trivial; distinct by (N, slot order, key, chain).',
     required=['or_insert:miss:partial', 'or_insert:hit-last:full', 'or_insert_with:hit-first', 'or_insert_with_key:miss', 'or_default:miss', 'and_modify.or_insert:hit-middle',
               'occ.insert|vac.insert.write:hit-last', 'occ.remove|vac.key:hit-first', 'occ.remove_entry|vac.into_key:hit-middle', 'occ.into_mut.write|vac.insert:miss:partial',
               'both-panic(full map, vacant insert)', 'both-panic(user closure)', 'random-state', 'zst:N=1', 'zst:N=3', 'h/entry.'],
     exhaustive_subspace='all slot layouts over a 4-class universe for N in {0,1,2,3,4,8} x every present key and one absent key x 25 entry method chains',
     assumptions=NATIVE_ASSUME + SAN_ASSUME,
     title='entry API',
     technique='runtime monitoring: twin-container monitor (entry chain vs the direct operations on an identically built map), closure-call counters, returned-reference address monitor, ledger identity of all other entries; bounded-exhaustive (state x key x chain) space; Miri for the unchecked slot access of OccupiedEntry',
     level_text='Exploration with an exhaustive sub-space: every enumerated entry method chain is run on every small map state and key next to the direct operations on a twin; observations (Occupied/Vacant, returned values and key objects, closure invocation counts, panic on a full map), the resulting dictionaries incl. stored-key identity, the address of returned references versus get_mut, and the identity of every other entry must agree.',
     level_note='Chains longer than three calls are not enumerated. Trusted: the hand-written direct-operation equivalents in the harness.',
     design_ref='DESIGN.md section 3, C11')


def _c03(tier):
    jobs = [
        J('C03', 'dbg/framed', 'dbg', 'eng_full', '--fam track,copy,large,zst,tiny,word,odd,k12,align', 6, q(tier, 60, 3000)),
        J('C03', 'rel/framed', 'rel', 'eng_full', '--fam track,copy,large,zst,tiny,word,odd,k12,align', 6, q(tier, 200, 12000)),
        J('C03', 'dbg/heap-elems', 'dbg', 'eng_full', '--fam raw,heap', 2, q(tier, 60, 3000)),
        J('C03', 'rel/heap-elems', 'rel', 'eng_full', '--fam raw,heap', 2, q(tier, 200, 12000)),
        # every insertion path of the history engines (incl. steps executed while the thread unwinds) on every
        # element family: a new key added to a full container without a panic (h/ and hs/ rows)
        J('C03', 'dbg/hist-map', 'dbg', 'eng_map', '--fam track,track,copy,zst,tiny,word,odd,k12,large,path', 4, q(tier, 60_000, 1_500_000), covp='h/'),
        J('C03', 'rel/hist-map', 'rel', 'eng_map', '--fam track,track,copy,zst,tiny,word,odd,k12,large,path', 4, q(tier, 200_000, 6_000_000), covp='h/'),
        J('C03', 'rel/hist-set', 'rel', 'eng_set', '--fam track,track,copy,zst,tiny,word,odd,k12,large,path', 4, q(tier, 200_000, 6_000_000), covp='hs/'),
        J('C03', 'miri/track', 'miri', 'eng_full', '--fam track,zst,raw', 8, q(tier, 1, 6), light=True, timeout=q(tier, 1500, 7200)),
        J('C03', 'mirirel/track', 'mirirel', 'eng_full', '--fam track,zst,raw', 8, q(tier, 1, 6), light=True, timeout=q(tier, 1500, 7200)),
    ]
    if tier == 'thorough':
        jobs += [
            J('C03', 'asan/exact', 'asan', 'eng_full', '--fam raw,heap,track,copy --exact', 8, 3000),
            J('C03', 'vg/exact', 'vg', 'eng_full', '--fam raw,heap,copy --exact', 8, 100, light=True, timeout=7200),
            J('C03', 'rel-std/framed', 'rel-std', 'eng_full', '--fam track,copy,large,zst', 4, 3000),
        ]
    return jobs


plan('C03', jobs=_c03,
     rule='A case is one call of one safe insertion entry point on one FULL container (or one overflowing collect). Full states are reached through random fill/remove/refill histories, so full maps occur in many slot layouts; per state every entry point (insert, insert_key_value, checked_insert, entry.or_insert / or_insert_with / or_insert_with_key / or_default / and_modify.or_insert, VacantEntry::insert | OccupiedEntry::insert, Set::insert, Set::replace, Set::extend with one and with two items) is called once with an absent key and once with a present key; Map/Set collect are fed more than N distinct keys with repeats sprinkled in (must panic) and more than N items with at most N distinct keys (must succeed); with_capacity(c) for c = N and c != N. Capacities N in {0,1,2,3,4,8,16}, element families track (ledger), copy, raw (String/Box), heap (faultable heap-owning), large (128/512-byte), zst (zero-sized key and value). Distinct by (family, N, slot order, seed history); every case is non-trivial.',
     required=['overflow-source-hint:exact', 'overflow-source-hint:(0,None)', 'overflow-source-hint:(lo,None)', 'overflow-source-hint:lies:(0,Some(0))', 'overflow-source-hint:lies:(MAX,None)',
               'insert:absent:N=0', 'insert:absent:N=4', 'insert:absent:N=8+', 'insert:present:N=4', 'insert_key_value:absent:N=1', 'checked_insert:absent:N=2', 'checked_insert:present:N=3',
               'entry.or_insert:absent', 'entry.or_insert_with:absent', 'entry.or_insert_with_key:absent', 'entry.or_default:absent', 'VacantEntry::insert|OccupiedEntry::insert:absent',
               'VacantEntry::insert|OccupiedEntry::insert:present', 'Set::insert:absent:N=0', 'Set::insert:absent:N=4', 'Set::replace:absent', 'Set::replace:present', 'Set::extend(one):absent',
               'Set::extend(two):absent', 'Map::from_iter(overflow):N=0', 'Map::from_iter(overflow):N=3', 'Set::from_iter(overflow):N=1', 'Map::from_iter(repeats beyond N):N=2', 'Set::from_iter(repeats beyond N):N=4', 'zst:absent:N=0', 'zst:absent:N=16', 'zst:present', 'with_capacity'],
     assumptions=NATIVE_ASSUME + SAN_ASSUME + ['canary words (128 bytes before and after the container, inside one poisoned heap frame) reveal writes next to the container; writes further away are the sanitizers\' business'],
     title='full container rejects a new key',
     technique='runtime monitoring: must-panic oracle per entry point in debug, release and Miri with and without debug assertions; canary frame around the container; identity fingerprint before/after; ledger for the rejected arguments; exact-size heap placement under AddressSanitizer and valgrind',
     level_text='Exploration: every safe insertion entry point is driven against full containers reached by random histories, for seven capacities and six element shapes, in the dev profile, the release profile (debug assertions off: only the code\'s own bounds check stands between the call and a slot overflow) and under Miri in both profiles; the call must panic (checked_insert: return None), canaries must be intact, the container must hold the very same objects, the rejected key and value must be destroyed exactly once, a present key must still be replaceable, and the container must stay usable. Thorough adds ASan and valgrind with the container alone in an exact-size heap block, and the std feature.',
     level_note='Red-zone tools cannot see intra-object overflow; the canary frame and Miri\'s bounds checks are the deciding monitors there. Finite sample of full states.',
     design_ref='DESIGN.md section 3, C03')


def _c17(tier):
    caps = ' --caps 0,1,2,3,4,8' + (',16' if tier == 'thorough' else '')
    jobs = [
        J('C17', 'dbg/track', 'dbg', 'eng_liar', '--fam track' + caps, 6, q(tier, 150_000, 6_000_000)),
        J('C17', 'rel/track', 'rel', 'eng_liar', '--fam track' + caps, 6, q(tier, 400_000, 20_000_000)),
        J('C17', 'dbg/heap', 'dbg', 'eng_liar', '--fam heap' + caps, 2, q(tier, 100_000, 3_000_000)),
        J('C17', 'rel/heap', 'rel', 'eng_liar', '--fam heap' + caps, 2, q(tier, 300_000, 10_000_000)),
        J('C17', 'miri/track', 'miri', 'eng_liar', '--fam track,heap --caps 0,1,2,3,4 --max-steps 40', 8, q(tier, 350, 4000), light=True, timeout=q(tier, 1500, 7200)),
        J('C17', 'mirirel/track', 'mirirel', 'eng_liar', '--fam track,heap --caps 0,1,2,3,4 --max-steps 40', 8, q(tier, 350, 4000), light=True, timeout=q(tier, 1500, 7200)),
    ]
    if tier == 'thorough':
        jobs += [
            J('C17', 'asan/heap', 'asan', 'eng_liar', '--fam heap,track' + caps, 8, 5_000_000),
            J('C17', 'vg/heap', 'vg', 'eng_liar', '--fam heap --caps 0,1,2,3,4,8', 8, 200_000, light=True, timeout=7200),
        ]
    return jobs


plan('C17', jobs=_c17,
     rule='Cases are steps of random histories over a Map and two Sets of the same capacity whose key type answers == under an adversary chosen per history: truthful, lying with probability 1/4 or 1/32 per call, always true, always false, non-reflexive, asymmetric (depends on operand identity), flip-flop; in a fifth of the histories Borrow additionally points at a different field than == uses. 30 operation kinds: every inserting, removing, looking-up, retaining, draining, entry, get_disjoint_mut (J = 2, 3, 6), clone/eq, consuming-iterator, collect, formatting, Set, set-algebra and `-` operation. Capacities {0,1,2,3,4,8} (thorough adds 16). Only safety is judged. Distinct by (N, adversary, operation, key, container slot order).',
     required=['insert:returned', 'remove(q):returned', 'retain:returned', 'get_disjoint_mut(2):returned', 'get_disjoint_mut(3):returned', 'get_disjoint_mut(6):', 'get_disjoint_mut(2):panicked',
               'entry.occupied-ops:returned', 'set.algebra:returned', 'set.sub+predicates:', 'from_iter:', 'clone+eq:returned', 'into_iter(clone):returned', 'set.extend:'],
     floors={'comparisons_answered_untruthfully': 1000},
     assumptions=NATIVE_ASSUME + SAN_ASSUME + ['no user panic is injected in this engine, so exactly-once destruction is demanded in full; panics raised by the container itself are accepted outcomes'],
     title='misbehaving Eq / Borrow',
     technique='runtime monitoring: safety-only monitors (ownership ledger with model-free conservation, len vs iteration, pairwise address distinctness of get_disjoint_mut results used together, canary frame) under an adversary that drives every key comparison; Miri in both profiles, ASan/valgrind with heap-owning keys',
     level_text='Exploration: random histories under adversarial comparison outcomes; wrong answers, duplicate keys and panics are accepted, but the ledger must see every object destroyed exactly once and never used while dead, len() must stay within capacity() and equal what iteration yields, references handed out together must not alias, and canaries must stay intact. The same driver runs under Miri (dev profile and debug-assertions-off profile, where an out-of-bounds unchecked access is reported as UB rather than as an abort) in the quick tier, and with heap-owning keys under ASan and valgrind in the thorough tier.',
     level_note='No reference model: answers are not judged. The adversary is random, not exhaustive.',
     design_ref='DESIGN.md section 3, C17')


def _c20(tier):
    jobs = [
        J('C20', 'dbg/serde', 'dbg-serde', 'eng_serde', '', 8, q(tier, 40_000, 1_500_000)),
        J('C20', 'rel/serde', 'rel-serde', 'eng_serde', '', 8, q(tier, 120_000, 6_000_000)),
    ]
    jobs.append(J('C20', 'miri/serde', 'miri-serde', 'eng_serde', '', 8, q(tier, 60, 600), light=True, timeout=q(tier, 1500, 7200)))
    return jobs


plan('C20', jobs=_c20,
     rule='A case is one container state pushed through one of: the recording serializer, or a decode (replay of the recorded stream / bincode standard / bincode legacy) into a target of capacity M. States come from random insert/remove histories (so the internal slot order varies, incl. empty and full), for Map<u32,u32,N>, Map<u8,i64,N>, Map<String,u32,N>, Map<i64,bool,N>, Map<u32,String,N>, Map<String,String,N>, Map<bool,u8,N>, Map<Zs,Zs,N> and Set<Zs,N> (zero-sized pairs, unit-struct encoding), Map<Zs,u32,N>, Set<u32,N>, Set<String,N>, Set<u8,N>, Set<i64,N> with source capacities N in {0,1,3,4,5,8,16}; targets M = N and three more capacities per type (M = len, len < M < N, M > N); decodes into M < len are not attempted. Non-trivial: the container is non-empty; distinct by (types, N, keys in slot order).',
     required=['map-serialize:empty', 'map-serialize:partial', 'map-serialize:full', 'map-decode:M=len', 'map-decode:M=N', 'map-decode:M>N', 'map-decode:len<M<N',
               'set-serialize:empty', 'set-serialize:partial', 'set-serialize:full', 'set-decode:M=len', 'set-decode:M=N', 'set-decode:M>N',
               'zero-sized-pairs:map', 'zero-sized-pairs:set'],
     assumptions=['serde 1.0.219 and bincode 2.0.1 from the offline registry are correct',
                  'the recording Serializer / replaying Deserializer of the harness implement the serde data model for maps and sequences of scalars and strings',
                  'only the executions listed under coverage were observed'],
     title='serde round trip',
     technique='runtime monitoring: recording serializer (announced vs emitted entry count read off the event log), replaying deserializer into several target capacities, bincode round trip; equality and entry-by-entry comparison with the original',
     level_text='Exploration (feature serde): every container state is serialized into a recording serializer whose log yields the announced length, the number of emitted keys/values/elements and the emitted entries (compared with len() and with an independent iteration); the recorded stream and two bincode encodings are decoded into targets of several capacities >= len and compared with the original by == both ways and entry by entry.',
     level_note='Only scalar and String elements; human-readable formats are not exercised. Decoding into a too-small target is outside the property.',
     design_ref='DESIGN.md section 3, C20')


def G(prop, label, cmd, control_cmd, tdir, timeout=1800):
    return dict(prop=prop, label=label, gate=True, cmd=cmd, control_cmd=control_cmd, tdir=tdir, timeout=timeout, variant='gate', cost=50)


def _c06(tier):
    jobs = [
        J('C06', 'dbg/default', 'dbg', 'eng_noheap', '', 4, q(tier, 250_000, 8_000_000)),
        J('C06', 'rel/default', 'rel', 'eng_noheap', '', 4, q(tier, 750_000, 25_000_000)),
        J('C06', 'dbg/std-feature', 'dbg-std', 'eng_noheap', '', 4, q(tier, 250_000, 8_000_000)),
        J('C06', 'rel/std-feature', 'rel-std', 'eng_noheap', '', 4, q(tier, 750_000, 25_000_000)),
        G('C06', 'no_std build (core only, target x86_64-unknown-none)',
          ['cargo', '+nightly', 'build', '--lib', '--offline', '-Zbuild-std=core', '--target', 'x86_64-unknown-none'],
          ['cargo', 'build', '--lib', '--offline'], 'nostd'),
    ]
    jobs.append(J('C06', 'miri/default', 'miri', 'eng_noheap', '--max-steps 24', 8, q(tier, 150, 1500), light=True, timeout=q(tier, 1500, 7200)))
    return jobs


plan('C06', jobs=_c06,
     rule='A case is one allocation window: one public operation executed between two reads of a counting global allocator (alloc, alloc_zeroed, realloc, dealloc), with nothing else in between. 56 window kinds cover construction (new, default, From<[_;N]>, collect), every Map operation (insert*, lookups, indexing, removals, retain, clear, drain, all borrowing and consuming iterators, the entry API, get_disjoint_mut, clone, ==, Debug/Display of the map and of its iterators into a fixed-buffer sink, drop) and every Set operation (incl. all set-algebra iterators walked with size_hint/count, predicates, `-`, extend by value and by reference), in random histories over element types that cannot allocate (u32, 128-byte array key, 512-byte array value, zero-sized), capacities 0..64 incl. containers larger than a page (8, 10 and 16 KiB), with micromap built with default features AND with the std feature. Operations expected to panic are never put in a window. In addition every reference handed out is range-checked against the container value. Distinct by (history fingerprint); every window is non-trivial.',
     required=['Map::new', 'Map::default', 'Map::from(array)', 'Map::from_iter(array)', 'insert', 'insert_key_value', 'checked_insert', 'get', 'get_mut', 'get_key_value', 'contains_key', 'index',
               'index_mut', 'remove', 'remove_entry', 'retain', 'clear', 'drain', 'iter', 'iter_mut', 'keys', 'values', 'values_mut', 'into_iter', 'into_keys', 'into_values', 'entry.or_insert', 'fmt(flags)', 'Set::fmt(flags)',
               'entry.or_insert_with', 'entry.and_modify.or_default', 'entry.occupied|vacant', 'get_disjoint_mut', 'clone', 'eq', 'fmt', 'drop(map)', 'Set::new', 'Set::from(array)', 'Set::insert',
               'Set::replace', 'Set::contains', 'Set::get', 'Set::remove', 'Set::take', 'Set::retain', 'Set::clear', 'Set::drain', 'Set::extend', 'Set::iter', 'Set::into_iter', 'Set::union',
               'Set::intersection', 'Set::difference', 'Set::symmetric_difference', 'Set::predicates', 'Set::sub', 'Set::clone+eq', 'Set::fmt', 'zst'],
     
     floors={'allocator_self_checks': 1, 'references_range_checked': 1000},
     assumptions=['the counting allocator is the process-wide #[global_allocator]; its self-check (a window around nothing reads 0, around Box::new reads >= 1) runs first and its failure makes the run inconclusive',
                  'element types, closures and the formatting sink used inside windows do not allocate',
                  'the no_std build clause is decided by the compiler (a build gate), not by an execution monitor: the library is built for x86_64-unknown-none with only `core` available',
                  'only the windows listed in coverage_matrix were observed'],
     title='no heap',
     technique='runtime monitoring: counting global allocator read immediately before and after every public operation (allocation windows), address-range monitor on every returned reference, default and std feature builds; plus a compiler gate for the no_std build clause',
     level_text='Exploration: millions of allocation windows, one public operation each, under a counting global allocator with non-allocating element types; any allocator call inside a window is a violation. Every reference handed out (lookups, indexing, iterators, entry API, get_disjoint_mut, set algebra) must lie inside the bytes of the container value. Both feature configurations are run. The clause "the crate builds without the standard library" is not observable by an execution monitor and is decided by building the library for a target that has no std (cargo +nightly build -Zbuild-std=core --target x86_64-unknown-none).',
     level_note='The build clause is a compiler gate (outside the runtime-monitoring family, stated as such). Allocation behaviour of PANICKING operations is not examined (the panic machinery may allocate).',
     design_ref='DESIGN.md section 3, C06')


def claimed():
    return sorted(PLANS)


def _with_std(jobs):
    """The crate officially supports the `std` cargo feature: every engine that runs in the release profile also
    runs once with micromap built with `--features std` (code behind `cfg(feature = "std")` is otherwise never
    executed), unless the plan already has a std job for that engine."""
    have = {j.get('bin') for j in jobs if j.get('variant') in ('rel-std', 'dbg-std')}
    out = list(jobs)
    for j in jobs:
        if j.get('gate') or j.get('variant') != 'rel' or j['bin'] in have or j['bin'] == 'eng_serde':
            continue
        have.add(j['bin'])
        c = dict(j)
        c['variant'] = 'rel-std'
        c['label'] = 'rel-std/' + j['label'].split('/', 1)[-1]
        if j['budget'] > 1:
            c['budget'] = max(1000, j['budget'] // 4)
            c['shards'] = max(2, j['shards'] // 2)
        c['cost'] = COST.get('rel-std', 1)
        out.append(c)
    return out


def jobs_for(pid, tier):
    return _with_std(PLANS[pid]['jobs'](tier))
NOT_APPLICABLE = {}
