"""Sensitivity self-test: apply one screened change at a time to /repo's working tree, run the
owning property's check, expect exit 1 + a VIOLATION line, and restore the tree.

Sources of changes: mutants/catalogue.json (exact-text replacements) and seeded/<id>/patch.diff
(changes written by independent sub-agents).  Evidence written during a self-test goes to a
scratch directory, never to /verif/evidence.  Results: mutants/selftest_results.json.
"""
import json
import os
import shutil
import subprocess
import tempfile
import time

REPO = '/repo'


def _clean(repo):
    subprocess.check_call(['git', '-C', repo, 'checkout', '--', '.'])
    # a seeded change may add source files: remove what `git apply` created
    subprocess.check_call(['git', '-C', repo, 'clean', '-fdq', '--', 'src', 'tests'])


def _dirty(repo):
    return subprocess.run(['git', '-C', repo, 'status', '--porcelain', '--untracked-files=no'], stdout=subprocess.PIPE,
                          text=True).stdout.strip() != ''


def load(root):
    items = []
    cat = json.load(open(os.path.join(root, 'mutants', 'catalogue.json')))['mutants']
    for m in cat:
        items.append(dict(name=m['name'], props=m['properties'], kind='catalogue', m=m, tier=m.get('tier', 'quick')))
    sd = os.path.join(root, 'seeded')
    if os.path.isdir(sd):
        for d in sorted(os.listdir(sd)):
            mp = os.path.join(sd, d, 'meta.json')
            if os.path.exists(mp):
                meta = json.load(open(mp))
                # judge_as: the change was written for meta['property'] but breaks, as stated, another property
                # (meta['why_judge_as']); the self-test then runs that property's check
                items.append(dict(name='seeded/' + d, props=[meta.get('judge_as', meta['property'])] + meta.get('also', []), kind='seeded',
                                  patch=os.path.join(sd, d, 'patch.diff'), tier=meta.get('tier', 'quick'), judged=meta.get('judged', True)))
    return items


def apply(item):
    if item['kind'] == 'seeded':
        subprocess.check_call(['git', '-C', REPO, 'apply', item['patch']])
        return
    m = item['m']
    edits = m.get('edits') or [{'file': m['file'], 'old': m['old'], 'new': m['new']}]
    for e in edits:
        p = os.path.join(REPO, e['file'])
        s = open(p).read()
        if s.count(e['old']) != 1:
            raise RuntimeError('old text occurs %d times in %s' % (s.count(e['old']), p))
        open(p, 'w').write(s.replace(e['old'], e['new']))


def run(root, names, tier, seed):
    if _dirty(REPO):
        print('selftest: /repo has uncommitted changes; refusing to run')
        return 2
    items = load(root)
    if names:
        items = [i for i in items if any(n == i['name'] or n in i['props'] or i['name'].startswith(n) for n in names)]
    res_path = os.path.join(root, 'mutants', 'selftest_results.json')
    results = {}
    if os.path.exists(res_path):
        results = json.load(open(res_path))
    scratch = tempfile.mkdtemp(prefix='verif-selftest-')
    missed = 0
    try:
        for it in items:
            row = dict(properties=it['props'], checks={})
            for pid in it['props'][:1] if not os.environ.get('SELFTEST_ALL_PROPS') else it['props']:
                t0 = time.time()
                try:
                    apply(it)
                    env = dict(os.environ)
                    env['VERIF_EVIDENCE_DIR'] = scratch
                    env['VERIF_SEED'] = str(seed)
                    p = subprocess.run([os.path.join(root, 'check'), pid, '--tier', it['tier'] if tier == 'quick' else tier],
                                       cwd=root, env=env, stdout=subprocess.PIPE, stderr=subprocess.PIPE, text=True)
                finally:
                    _clean(REPO)
                sigs = []
                ev = os.path.join(scratch, pid + '.json')
                if os.path.exists(ev):
                    try:
                        sigs = sorted(json.load(open(ev))['coverage'].get('violation_signatures', {}).keys())[:6]
                    except Exception:
                        pass
                caught = p.returncode == 1 and 'VIOLATION property=%s' % pid in p.stdout
                judged = it.get('judged', True)
                row['checks'][pid] = dict(caught=caught, judged=judged, exit=p.returncode, wall_s=round(time.time() - t0, 1), signatures=sigs,
                                          tier=it['tier'] if tier == 'quick' else tier)
                print('%-44s %s %s  exit=%d  %.0fs  %s' % (it['name'], pid, 'CAUGHT' if caught else 'MISSED', p.returncode,
                                                          time.time() - t0, sigs[:2]), flush=True)
                if not caught and not judged:
                    print('    (documented non-detection: the property as stated does not cover this change, see meta.json)')
                elif not caught:
                    missed += 1
                    print('    stdout:', p.stdout[-600:].replace('\n', ' | '))
            results[it['name']] = row
            with open(res_path, 'w') as f:
                json.dump(results, f, indent=1, sort_keys=True)
    finally:
        _clean(REPO)
        shutil.rmtree(scratch, ignore_errors=True)
    print('selftest: %d changes, %d missed' % (len(items), missed))
    return 1 if missed else 0
