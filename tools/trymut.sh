#!/bin/bash
# usage: trymut.sh <mutant> <bin> <args...> : apply mutant to /repo, build dbg, run, revert
M=$1; shift; B=$1; shift
cd /verif/harness
/verif/tools/mutant.py apply $M || exit 2
CARGO_TARGET_DIR=/verif/target/dbg RUSTFLAGS=--cap-lints=warn cargo build -q -p engines --bin $B 2>&1 | grep -E "^error" -A 8
/verif/target/dbg/debug/$B "$@" 2>&1 | python3 -c "
import sys,json
for l in sys.stdin:
    if l.startswith('REPORT '):
        r=json.loads(l[7:]); print(r['prop'], 'evals', r['evaluations'], 'viol_total', r['viol_total'], 'by prop', sorted(set(v['prop'] for v in r['violations'])))
        for v in r['violations'][:4]: print('   ', v['prop'], v['sig'], '|', v['msg'][:200])
    else: print(l[:300].rstrip())
"
echo "exit: ${PIPESTATUS[0]}"
/verif/tools/mutant.py revert
